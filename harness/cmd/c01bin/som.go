package main

import (
	"bytes"
	"encoding/hex"
	"fmt"

	"github.com/iotaledger/hive.go/ds/serializableorderedmap"
	"github.com/iotaledger/hive.go/serializer/v2/serix"

	"verif/harness/vx"
)

// SerializableOrderedMap (ds/serializableorderedmap, an anchor of C01): histories of Set / Delete, then Encode, then
// Decode into a fresh map. Go-side oracle only (the codec itself is modelled by C11's CodecModel): the reference is a
// slice of pairs (Set of an existing key updates in place, of a new key appends; Delete removes); the encoding must be
// uint32 count ++ (key, LE16 value)*, Decode must consume everything and yield the same pairs in the same order.
type somOp struct {
	del bool
	k   uint8
	v   uint16
}

func somRun(ops []somOp) (what string) {
	defer func() {
		if r := recover(); r != nil {
			what = fmt.Sprint("panic: ", r)
		}
	}()
	api := serix.NewAPI()
	m := serializableorderedmap.New[uint8, uint16]()
	type pair struct {
		k uint8
		v uint16
	}
	var ref []pair
	for _, o := range ops {
		idx := -1
		for i, p := range ref {
			if p.k == o.k {
				idx = i
			}
		}
		if o.del {
			m.Delete(o.k)
			if idx >= 0 {
				ref = append(ref[:idx:idx], ref[idx+1:]...)
			}
		} else {
			m.Set(o.k, o.v)
			if idx >= 0 {
				ref[idx].v = o.v
			} else {
				ref = append(ref, pair{o.k, o.v})
			}
		}
	}
	want := []byte{byte(len(ref)), 0, 0, 0}
	for _, p := range ref {
		want = append(want, p.k, byte(p.v), byte(p.v>>8))
	}
	b, err := m.Encode(api)
	if err != nil {
		return "Encode failed: " + err.Error()
	}
	if !bytes.Equal(b, want) {
		return "Encode = " + hex.EncodeToString(b) + ", reference " + hex.EncodeToString(want)
	}
	back := serializableorderedmap.New[uint8, uint16]()
	n, err := back.Decode(api, append(append([]byte{}, b...), 0xee))
	if err != nil {
		return "Decode of the encoding failed: " + err.Error()
	}
	if n != len(b) {
		return fmt.Sprintf("Decode consumed %d of %d bytes", n, len(b))
	}
	var got []pair
	back.ForEach(func(k uint8, v uint16) bool { got = append(got, pair{k, v}); return true })
	if fmt.Sprint(got) != fmt.Sprint(ref) || back.Size() != len(ref) {
		return fmt.Sprintf("decoded %v (size %d), reference %v", got, back.Size(), ref)
	}
	return ""
}

// somHistories: directed histories (delete head / middle / tail / only element, then Set) and random ones.
func (ru *run) somHistories(n int) {
	S := func(k uint8, v uint16) somOp { return somOp{k: k, v: v} }
	D := func(k uint8) somOp { return somOp{del: true, k: k} }
	hs := [][]somOp{
		{S(1, 1), S(2, 2), D(2), S(3, 3)}, {S(1, 1), S(2, 2), S(3, 3), D(3), S(4, 4), S(3, 5)}, {S(1, 1), D(1), S(2, 2)},
		{S(1, 1), S(2, 2), D(1), S(1, 9)}, {S(1, 1), S(2, 2), S(3, 3), D(2), S(2, 7)}, {S(1, 1), S(1, 2)}, {},
		{S(1, 1), S(2, 2), D(2), D(1), S(5, 5)}, {S(1, 1), S(2, 2), D(2), S(2, 2), D(2), S(6, 6)},
	}
	r := ru.r.Fork()
	for i := 0; i < n; i++ {
		var h []somOp
		for j, l := 0, 1+r.Intn(10); j < l; j++ {
			if r.Chance(1, 3) {
				h = append(h, D(uint8(r.Intn(5))))
			} else {
				h = append(h, S(uint8(r.Intn(5)), vx.Pick(r, []uint16{0, 1, 255, 256, 65535})))
			}
		}
		hs = append(hs, h)
	}
	for _, h := range hs {
		ru.st.Count("som:histories")
		if what := somRun(h); what != "" {
			ru.nfail++
			if ru.nfail <= 20 {
				ru.st.Fail(map[string]any{"sig": "orderedmap-history-roundtrip", "what": "SerializableOrderedMap after a Set/Delete history: " + what, "history": fmt.Sprintf("%+v", h), "mode": ru.mode, "seed": ru.seed})
			}
		}
	}
}
