// C06 harness: runs kvstore.TypedValue / kvstore.TypedStore over a mapdb wrapped by a fault-injecting KVStore,
// with fault-injecting codecs; store wrapper and codecs consume ONE shared fault script (one boolean per
// codec/store call, in call order).  After every call the result class + value, the callback arguments, the raw
// bytes in the underlying mapdb and the number of script positions consumed are recorded for the Coq model, and
// judged by a Go-side oracle (transparency w.r.t. the raw key(s), failure atomicity, faults reported).
package main

import (
	"bytes"
	"encoding/json"
	"errors"
	"flag"
	"fmt"
	"os"
	"sort"
	"strings"
	"time"

	"github.com/iotaledger/hive.go/kvstore"
	"github.com/iotaledger/hive.go/kvstore/mapdb"

	"verif/harness/vx"
)

var (
	errInjected    = errors.New("injected fault")
	errMalformed   = errors.New("malformed bytes")
	errUnencodable = errors.New("value not encodable")
	errCompute     = errors.New("compute callback failed")
)

// ---------- fault script ----------

type script struct {
	bits []bool
	pos  int
	sh   *shaper // presentation (bare / wrapped / inside an error tree) of the errors handed to the code under test
}

// err presents an error the harness is about to hand to the code under test in the shape the case prescribes.
func (s *script) err(e error) error { return s.sh.wrap(e) }

func (s *script) next() bool {
	b := s.pos < len(s.bits) && s.bits[s.pos]
	s.pos++
	return b
}

func (s *script) hit(from, to int) bool {
	for i := from; i < to && i < len(s.bits); i++ {
		if s.bits[i] {
			return true
		}
	}
	return false
}

// faultStore: every call consumes one script position; a fault returns an error without touching the store.
type faultStore struct {
	kvstore.KVStore
	sc *script
}

func (f *faultStore) Get(k kvstore.Key) (kvstore.Value, error) {
	if f.sc.next() {
		return nil, f.sc.err(errInjected)
	}
	v, err := f.KVStore.Get(k)
	return v, f.sc.err(err) // ErrKeyNotFound of the store below, in the prescribed shape
}
func (f *faultStore) Has(k kvstore.Key) (bool, error) {
	if f.sc.next() {
		return false, f.sc.err(errInjected)
	}
	b, err := f.KVStore.Has(k)
	return b, f.sc.err(err)
}
func (f *faultStore) Set(k kvstore.Key, v kvstore.Value) error {
	if f.sc.next() {
		return f.sc.err(errInjected)
	}
	return f.sc.err(f.KVStore.Set(k, v))
}
func (f *faultStore) Delete(k kvstore.Key) error {
	if f.sc.next() {
		return f.sc.err(errInjected)
	}
	return f.sc.err(f.KVStore.Delete(k))
}
func (f *faultStore) Iterate(p kvstore.KeyPrefix, c kvstore.IteratorKeyValueConsumerFunc, d ...kvstore.IterDirection) error {
	if f.sc.next() {
		return f.sc.err(errInjected)
	}
	return f.sc.err(f.KVStore.Iterate(p, c, d...))
}
func (f *faultStore) IterateKeys(p kvstore.KeyPrefix, c kvstore.IteratorKeyConsumerFunc, d ...kvstore.IterDirection) error {
	if f.sc.next() {
		return f.sc.err(errInjected)
	}
	return f.sc.err(f.KVStore.IterateKeys(p, c, d...))
}
func (f *faultStore) DeletePrefix(p kvstore.KeyPrefix) error {
	if f.sc.next() {
		return f.sc.err(errInjected)
	}
	return f.sc.err(f.KVStore.DeletePrefix(p))
}
func (f *faultStore) Clear() error {
	if f.sc.next() {
		return f.sc.err(errInjected)
	}
	return f.sc.err(f.KVStore.Clear())
}

// ---------- codecs (mirrored by encV/decV/encK/decK in Corr.v) ----------

func rawEncV(v uint16) ([]byte, bool) {
	if v == 0xFFFF {
		return nil, false
	}
	return []byte{byte(v >> 8), byte(v)}, true
}
func rawDecV(b []byte) (uint16, bool) {
	if len(b) < 2 {
		return 0, false
	}
	return uint16(b[0])<<8 | uint16(b[1]), true
}
func rawEncK(k uint8) ([]byte, bool) {
	if k == 0xFF {
		return nil, false
	}
	return []byte{k >> 4, k & 15}, true
}
func rawDecK(b []byte) (uint8, bool) {
	if len(b) != 2 || b[0] >= 16 || b[1] >= 16 {
		return 0, false
	}
	return b[0]<<4 | b[1], true
}

// codecs: mode "" = every Encode allocates a fresh slice; "scratch" = each encoder (one for keys, one for values)
// serialises into ITS OWN reusable scratch buffer and returns a slice of it, valid until that encoder's next call
// (a failed call leaves the buffer scribbled): whoever keeps the bytes (the store below, a cache) must have copied them.
// (Zero-copy DEcoders do not exist for the scalar K/V of this harness: uint8/uint16 cannot alias their input.)
func codecs(sc *script, mode string) (kvstore.ObjectToBytes[uint8], kvstore.BytesToObject[uint8], kvstore.ObjectToBytes[uint16], kvstore.BytesToObject[uint16]) {
	kbuf, vbuf := make([]byte, 0, 8), make([]byte, 0, 8)
	out := func(buf *[]byte, b []byte) []byte {
		if mode != "scratch" {
			return b
		}
		*buf = append((*buf)[:0], b...)
		return *buf
	}
	scribble := func(buf *[]byte) {
		if mode == "scratch" {
			*buf = append((*buf)[:0], 0xEE, 0xEE, 0xEE)
		}
	}
	ek := func(k uint8) ([]byte, error) {
		if sc.next() {
			scribble(&kbuf)
			return nil, sc.err(errInjected)
		}
		if b, ok := rawEncK(k); ok {
			return out(&kbuf, b), nil
		}
		scribble(&kbuf)
		return nil, sc.err(errUnencodable)
	}
	dk := func(b []byte) (uint8, int, error) {
		if sc.next() {
			return 0, 0, sc.err(errInjected)
		}
		if k, ok := rawDecK(b); ok {
			return k, 2, nil
		}
		return 0, 0, sc.err(errMalformed)
	}
	ev := func(v uint16) ([]byte, error) {
		if sc.next() {
			scribble(&vbuf)
			return nil, sc.err(errInjected)
		}
		if b, ok := rawEncV(v); ok {
			return out(&vbuf, b), nil
		}
		scribble(&vbuf)
		return nil, sc.err(errUnencodable)
	}
	dv := func(b []byte) (uint16, int, error) {
		if sc.next() {
			return 0, 0, sc.err(errInjected)
		}
		if v, ok := rawDecV(b); ok {
			return v, 2, nil
		}
		return 0, 0, sc.err(errMalformed)
	}
	return ek, dk, ev, dv
}

func class(err error) string {
	switch {
	case err == nil:
		return ""
	case errors.Is(err, kvstore.ErrKeyNotFound):
		return "ENotFound"
	case errors.Is(err, errInjected):
		return "EFault"
	case errors.Is(err, errMalformed):
		return "EDecode"
	case errors.Is(err, errUnencodable):
		return "EEncode"
	case errors.Is(err, errCompute):
		return "ECompute"
	}
	return "EOther"
}

// ---------- case description (replayable JSON) ----------

type tvop struct {
	K string `json:"k"`           // get has set del cmp
	V uint16 `json:"v,omitempty"` // set value / const / initkeep value
	F string `json:"f,omitempty"` // const incr keep fail initkeep failex
}

type tsop struct {
	K      string `json:"k"` // get has set del iter iterkeys delprefix clear rawset
	Key    uint8  `json:"key,omitempty"`
	V      uint16 `json:"v,omitempty"`
	Prefix []int  `json:"prefix,omitempty"`
	Back   bool   `json:"back,omitempty"`
	Limit  int    `json:"limit,omitempty"`
	RawK   []int  `json:"rawk,omitempty"`
	RawV   []int  `json:"rawv,omitempty"`
}

type kcase struct {
	Kind      string     `json:"kind"` // tv ts
	Tag       string     `json:"tag"`
	Faults    string     `json:"faults"`               // e.g. "00100"
	Codec     string     `json:"codec,omitempty"`      // "" fresh slice per Encode; "scratch": encoders return slices of reused scratch buffers
	Shapes    []int      `json:"shapes,omitempty"`     // shape of the k-th error handed to the code under test (cyclic; none = bare), see errs.go
	InitRaw   []int      `json:"init_raw,omitempty"`   // tv: raw bytes under the key
	InitThere bool       `json:"init_there,omitempty"` // tv: key present initially
	InitStore [][2][]int `json:"init_store,omitempty"`
	TV        []tvop     `json:"tv,omitempty"`
	TS        []tsop     `json:"ts,omitempty"`
}

func toInts(b []byte) []int {
	r := make([]int, len(b))
	for i, x := range b {
		r[i] = int(x)
	}
	return r
}
func toBytes(a []int) []byte {
	r := make([]byte, len(a))
	for i, x := range a {
		r[i] = byte(x)
	}
	return r
}
func faultBits(s string) []bool {
	r := make([]bool, len(s))
	for i := range s {
		r[i] = s[i] == '1'
	}
	return r
}
func faultString(b []bool) string {
	var sb strings.Builder
	for _, x := range b {
		if x {
			sb.WriteByte('1')
		} else {
			sb.WriteByte('0')
		}
	}
	return sb.String()
}

func coqBytes(b []byte) string {
	it := make([]string, len(b))
	for i, x := range b {
		it[i] = fmt.Sprintf("%d", x)
	}
	return "[" + strings.Join(it, ";") + "]"
}
func coqOptBytes(b []byte, there bool) string {
	if !there {
		return "None"
	}
	return "(Some " + coqBytes(b) + ")"
}
func coqFaults(b []bool) string { return vx.ListOf(b, vx.Bool) }

func (o tvop) coq() string {
	switch o.K {
	case "get":
		return "TGet"
	case "has":
		return "THas"
	case "set":
		return fmt.Sprintf("TSet %d", o.V)
	case "del":
		return "TDelete"
	}
	switch o.F {
	case "const":
		return fmt.Sprintf("TCompute (FConst %d)", o.V)
	case "incr":
		return "TCompute FIncr"
	case "keep":
		return "TCompute FKeep"
	case "fail":
		return "TCompute FFail"
	case "initkeep":
		return fmt.Sprintf("TCompute (FInitOrKeep %d)", o.V)
	}
	return "TCompute FFailIfExists"
}

// computeFunc mirrors Corr.interp; the bool says whether it asked for a write.
func (o tvop) apply(cur uint16, ex bool) (uint16, error) {
	switch o.F {
	case "const":
		return o.V, nil
	case "incr":
		return cur + 1, nil
	case "keep":
		return 0, kvstore.ErrTypedValueNotChanged
	case "fail":
		return 0, errCompute
	case "initkeep":
		if ex {
			return 0, kvstore.ErrTypedValueNotChanged
		}
		return o.V, nil
	}
	if ex {
		return 0, errCompute
	}
	return 1, nil
}

// ---------- TypedValue histories ----------

var tvKey = []byte{0xC0, 0x06}

type tvObs struct {
	cls      string // "" = success
	errStr   string
	val      uint16
	hasVal   bool
	b        bool
	hasB     bool
	panicky  bool
	cbCalled bool
	cbCur    uint16
	cbEx     bool
	raw      []byte
	there    bool
	pos      int
}

func (x tvObs) resCoq() string {
	switch {
	case x.panicky:
		return "RPanic"
	case x.cls != "":
		return "(RErr " + x.cls + ")"
	case x.hasVal:
		return fmt.Sprintf("(RVal %d)", x.val)
	case x.hasB:
		return "(RBool " + vx.Bool(x.b) + ")"
	}
	return "ROk"
}

func (x tvObs) coq() string {
	cb := "None"
	if x.cbCalled {
		cb = fmt.Sprintf("(Some (%d, %s))", x.cbCur, vx.Bool(x.cbEx))
	}
	return fmt.Sprintf("mkTObs %s %s %s %d%%nat", x.resCoq(), cb, coqOptBytes(x.raw, x.there), x.pos)
}

func readRaw(inner kvstore.KVStore) ([]byte, bool) {
	v, err := inner.Get(tvKey)
	if err != nil {
		return nil, false
	}
	return append([]byte{}, v...), true
}

func runTV(c kcase) (obs []tvObs, why string) {
	inner := mapdb.NewMapDB()
	if c.InitThere {
		_ = inner.Set(tvKey, toBytes(c.InitRaw))
	}
	sc := &script{bits: faultBits(c.Faults), sh: &shaper{shapes: c.Shapes}}
	defer func() { lastShapeUse = sc.sh.used }()
	_, _, ev, dv := codecs(sc, c.Codec)
	tv := kvstore.NewTypedValue[uint16](&faultStore{KVStore: inner, sc: sc}, tvKey, ev, dv)
	fail := func(i int, format string, a ...any) {
		if why == "" {
			why = fmt.Sprintf("step %d (%s): ", i, c.TV[i].coq()) + fmt.Sprintf(format, a...)
		}
	}
	for i, o := range c.TV {
		before, thereBefore := readRaw(inner)
		pos0 := sc.pos
		x := tvObs{}
		wrote, newV := false, uint16(0)
		func() {
			defer func() {
				if r := recover(); r != nil {
					x.panicky = true
				}
			}()
			switch o.K {
			case "get":
				v, err := tv.Get()
				x.cls, x.val, x.hasVal = class(err), v, err == nil
			case "has":
				b, err := tv.Has()
				x.cls, x.b, x.hasB = class(err), b, err == nil
			case "set":
				x.cls = class(tv.Set(o.V))
			case "del":
				x.cls = class(tv.Delete())
			case "cmp":
				v, err := tv.Compute(func(cur uint16, ex bool) (uint16, error) {
					x.cbCalled, x.cbCur, x.cbEx = true, cur, ex
					nv, e := o.apply(cur, ex)
					wrote, newV = e == nil, nv
					return nv, sc.err(e) // ErrTypedValueNotChanged / the callback's own failure, in the prescribed shape
				})
				x.cls, x.val, x.hasVal = class(err), v, err == nil
				if err != nil {
					x.errStr = err.Error()
				}
			}
		}()
		x.raw, x.there = readRaw(inner)
		x.pos = sc.pos
		obs = append(obs, x)

		// ---- Go-side oracle: the raw key under the codec, failure atomicity, faults reported ----
		same := x.there == thereBefore && bytes.Equal(x.raw, before)
		cur, decOK := rawDecV(before)
		if x.panicky {
			fail(i, "panicked")
			continue
		}
		if sc.hit(pos0, x.pos) && x.cls != "EFault" {
			fail(i, "a codec/store call failed (script positions %d..%d) but the caller got class %q", pos0, x.pos, x.cls)
		}
		if x.cls == "EFault" && !sc.hit(pos0, x.pos) {
			fail(i, "reported a fault that was not injected")
		}
		if x.cls != "" && !same {
			fail(i, "returned error class %s but the raw bytes changed from %v to %v", x.cls, before, x.raw)
		}
		if x.cls == "EFault" || x.cls == "EOther" {
			if x.cls == "EOther" {
				fail(i, "the caller got an error that is none of the errors handed to the code (a compute function's ErrTypedValueNotChanged reported as a failure?): %q", x.errStr)
			}
			continue
		}
		switch o.K {
		case "get":
			switch {
			case !thereBefore:
				if x.cls != "ENotFound" {
					fail(i, "key absent but Get gave class %q value %d", x.cls, x.val)
				}
			case !decOK:
				if x.cls != "EDecode" {
					fail(i, "raw bytes %v undecodable but Get gave class %q value %d", before, x.cls, x.val)
				}
			default:
				if x.cls != "" || x.val != cur {
					fail(i, "raw bytes decode to %d but Get gave class %q value %d", cur, x.cls, x.val)
				}
			}
		case "has":
			if x.cls != "" || x.b != thereBefore {
				fail(i, "key present=%v but Has gave class %q %v", thereBefore, x.cls, x.b)
			}
		case "set":
			want, ok := rawEncV(o.V)
			if ok && (x.cls != "" || !x.there || !bytes.Equal(x.raw, want)) {
				fail(i, "Set(%d): class %q raw %v", o.V, x.cls, x.raw)
			}
			if !ok && x.cls != "EEncode" {
				fail(i, "Set of an unencodable value gave class %q", x.cls)
			}
		case "del":
			if x.cls != "" || x.there {
				fail(i, "Delete: class %q, key still present=%v", x.cls, x.there)
			}
		case "cmp":
			if thereBefore && !decOK {
				if x.cls != "EDecode" || x.cbCalled {
					fail(i, "raw bytes %v undecodable but Compute gave class %q (callback called=%v)", before, x.cls, x.cbCalled)
				}
				break
			}
			if !thereBefore {
				cur = 0
			}
			if !x.cbCalled {
				fail(i, "Compute did not run the function (class %q: %q) although the raw key is readable (present=%v)", x.cls, x.errStr, thereBefore)
				break
			}
			if x.cbCur != cur || x.cbEx != thereBefore {
				fail(i, "callback saw (%d,%v) called=%v, the raw key holds (%d,%v)", x.cbCur, x.cbEx, x.cbCalled, cur, thereBefore)
				break
			}
			_, e := o.apply(cur, thereBefore)
			switch {
			case e == nil:
				want, ok := rawEncV(newV)
				if ok && (x.cls != "" || x.val != newV || !x.there || !bytes.Equal(x.raw, want)) {
					fail(i, "Compute -> %d: class %q value %d raw %v", newV, x.cls, x.val, x.raw)
				}
				if !ok && x.cls != "EEncode" {
					fail(i, "Compute to an unencodable value gave class %q value %d raw %v", x.cls, x.val, x.raw)
				}
			case errors.Is(e, kvstore.ErrTypedValueNotChanged):
				if x.cls != "" || x.val != cur || !same {
					fail(i, "Compute(not changed): class %q value %d (current %d), raw unchanged=%v", x.cls, x.val, cur, same)
				}
			default:
				if x.cls != "ECompute" {
					fail(i, "failing callback but class %q", x.cls)
				}
			}
			_ = wrote
		}
	}
	return obs, why
}

// ---------- TypedStore histories ----------

type entry struct{ k, v []byte }

func snapshot(inner kvstore.KVStore) []entry {
	var es []entry
	_ = inner.Iterate(kvstore.EmptyPrefix, func(k kvstore.Key, v kvstore.Value) bool {
		es = append(es, entry{append([]byte{}, k...), append([]byte{}, v...)})
		return true
	})
	sort.Slice(es, func(i, j int) bool { return bytes.Compare(es[i].k, es[j].k) < 0 })
	return es
}

func sameStore(a, b []entry) bool {
	if len(a) != len(b) {
		return false
	}
	for i := range a {
		if !bytes.Equal(a[i].k, b[i].k) || !bytes.Equal(a[i].v, b[i].v) {
			return false
		}
	}
	return true
}

func lookup(es []entry, k []byte) ([]byte, bool) {
	for _, e := range es {
		if bytes.Equal(e.k, k) {
			return e.v, true
		}
	}
	return nil, false
}

func coqStore(es []entry) string {
	it := make([]string, len(es))
	for i, e := range es {
		it[i] = vx.Pair(coqBytes(e.k), coqBytes(e.v))
	}
	return vx.List(it)
}

type kvp struct {
	k uint8
	v uint16
}

type tsObs struct {
	cls     string
	val     uint16
	hasVal  bool
	b       bool
	hasB    bool
	isList  bool
	isKeys  bool
	list    []kvp
	store   []entry
	pos     int
	panicky bool
}

func optCls(c string) string {
	if c == "" {
		return "None"
	}
	return "(Some " + c + ")"
}

func (x tsObs) resCoq() string {
	switch {
	case x.isList:
		it := make([]string, len(x.list))
		for i, e := range x.list {
			it[i] = fmt.Sprintf("(%d, %d)", e.k, e.v)
		}
		return "(SList " + vx.List(it) + " " + optCls(x.cls) + ")"
	case x.isKeys:
		it := make([]string, len(x.list))
		for i, e := range x.list {
			it[i] = fmt.Sprintf("%d", e.k)
		}
		return "(SKeys " + vx.List(it) + " " + optCls(x.cls) + ")"
	case x.cls != "":
		return "(SErr " + x.cls + ")"
	case x.hasVal:
		return fmt.Sprintf("(SVal %d)", x.val)
	case x.hasB:
		return "(SBool " + vx.Bool(x.b) + ")"
	}
	return "SOk"
}

func (x tsObs) coq() string {
	return fmt.Sprintf("mkSObs %s %s %d%%nat", x.resCoq(), coqStore(x.store), x.pos)
}

func (o tsop) coq() string {
	switch o.K {
	case "get":
		return fmt.Sprintf("SGet %d", o.Key)
	case "has":
		return fmt.Sprintf("SHas %d", o.Key)
	case "set":
		return fmt.Sprintf("SSet %d %d", o.Key, o.V)
	case "del":
		return fmt.Sprintf("SDelete %d", o.Key)
	case "iter":
		return fmt.Sprintf("SIterate %s %s %d%%nat", coqBytes(toBytes(o.Prefix)), vx.Bool(o.Back), o.Limit)
	case "iterkeys":
		return fmt.Sprintf("SIterateKeys %s %s %d%%nat", coqBytes(toBytes(o.Prefix)), vx.Bool(o.Back), o.Limit)
	case "delprefix":
		return fmt.Sprintf("SDeletePrefix %s", coqBytes(toBytes(o.Prefix)))
	case "clear":
		return "SClear"
	}
	return fmt.Sprintf("SRawSet %s %s", coqBytes(toBytes(o.RawK)), coqBytes(toBytes(o.RawV)))
}

func runTS(c kcase) (obs []tsObs, why string) {
	inner := mapdb.NewMapDB()
	for _, e := range c.InitStore {
		_ = inner.Set(toBytes(e[0]), toBytes(e[1]))
	}
	sc := &script{bits: faultBits(c.Faults), sh: &shaper{shapes: c.Shapes}}
	defer func() { lastShapeUse = sc.sh.used }()
	ek, dk, ev, dv := codecs(sc, c.Codec)
	ts := kvstore.NewTypedStore[uint8, uint16](&faultStore{KVStore: inner, sc: sc}, ek, dk, ev, dv)
	fail := func(i int, format string, a ...any) {
		if why == "" {
			why = fmt.Sprintf("step %d (%s): ", i, c.TS[i].coq()) + fmt.Sprintf(format, a...)
		}
	}
	for i, o := range c.TS {
		before := snapshot(inner)
		pos0 := sc.pos
		x := tsObs{}
		dir := kvstore.IterDirectionForward
		if o.Back {
			dir = kvstore.IterDirectionBackward
		}
		func() {
			defer func() {
				if r := recover(); r != nil {
					x.panicky = true
				}
			}()
			switch o.K {
			case "get":
				v, err := ts.Get(o.Key)
				x.cls, x.val, x.hasVal = class(err), v, err == nil
			case "has":
				b, err := ts.Has(o.Key)
				x.cls, x.b, x.hasB = class(err), b, err == nil
			case "set":
				x.cls = class(ts.Set(o.Key, o.V))
			case "del":
				x.cls = class(ts.Delete(o.Key))
			case "iter":
				x.isList = true
				err := ts.Iterate(toBytes(o.Prefix), func(k uint8, v uint16) bool {
					x.list = append(x.list, kvp{k, v})
					return len(x.list) < o.Limit
				}, dir)
				x.cls = class(err)
			case "iterkeys":
				x.isKeys = true
				err := ts.IterateKeys(toBytes(o.Prefix), func(k uint8) bool {
					x.list = append(x.list, kvp{k, 0})
					return len(x.list) < o.Limit
				}, dir)
				x.cls = class(err)
			case "delprefix":
				x.cls = class(ts.DeletePrefix(toBytes(o.Prefix)))
			case "clear":
				x.cls = class(ts.Clear())
			case "rawset":
				_ = inner.Set(toBytes(o.RawK), toBytes(o.RawV))
			}
		}()
		x.store = snapshot(inner)
		x.pos = sc.pos
		obs = append(obs, x)

		// ---- Go-side oracle ----
		if x.panicky {
			fail(i, "panicked")
			continue
		}
		same := sameStore(before, x.store)
		if sc.hit(pos0, x.pos) && x.cls != "EFault" {
			fail(i, "a codec/store call failed but the caller got class %q", x.cls)
		}
		if x.cls == "EFault" && !sc.hit(pos0, x.pos) {
			fail(i, "reported a fault that was not injected")
		}
		if x.cls != "" && !same {
			fail(i, "returned error class %s but the store changed", x.cls)
		}
		if x.cls == "EOther" {
			fail(i, "unclassified error")
		}
		if x.cls == "EFault" || x.cls == "EOther" {
			continue
		}
		kb, kok := rawEncK(o.Key)
		switch o.K {
		case "get", "has", "set", "del":
			if !kok {
				if x.cls != "EEncode" {
					fail(i, "unencodable key but class %q", x.cls)
				}
				continue
			}
		}
		switch o.K {
		case "get":
			vb, there := lookup(before, kb)
			v, dok := rawDecV(vb)
			switch {
			case !there:
				if x.cls != "ENotFound" {
					fail(i, "absent key: class %q", x.cls)
				}
			case !dok:
				if x.cls != "EDecode" {
					fail(i, "undecodable value: class %q", x.cls)
				}
			default:
				if x.cls != "" || x.val != v {
					fail(i, "raw value decodes to %d, Get gave class %q value %d", v, x.cls, x.val)
				}
			}
		case "has":
			_, there := lookup(before, kb)
			if x.cls != "" || x.b != there {
				fail(i, "present=%v, Has gave class %q %v", there, x.cls, x.b)
			}
		case "set":
			vb, vok := rawEncV(o.V)
			if !vok {
				if x.cls != "EEncode" {
					fail(i, "unencodable value but class %q", x.cls)
				}
				break
			}
			want := []entry{}
			for _, e := range before {
				if !bytes.Equal(e.k, kb) {
					want = append(want, e)
				}
			}
			want = append(want, entry{kb, vb})
			sort.Slice(want, func(a, b int) bool { return bytes.Compare(want[a].k, want[b].k) < 0 })
			if x.cls != "" || !sameStore(want, x.store) {
				fail(i, "Set: class %q, store is not the old store with this one entry replaced", x.cls)
			}
		case "del":
			want := []entry{}
			for _, e := range before {
				if !bytes.Equal(e.k, kb) {
					want = append(want, e)
				}
			}
			if x.cls != "" || !sameStore(want, x.store) {
				fail(i, "Delete: class %q, store is not the old store without this entry", x.cls)
			}
		case "iter", "iterkeys":
			if !same {
				fail(i, "iteration changed the store")
			}
			var es []entry
			for _, e := range before {
				if bytes.HasPrefix(e.k, toBytes(o.Prefix)) {
					es = append(es, e)
				}
			}
			if o.Back {
				for a, b := 0, len(es)-1; a < b; a, b = a+1, b-1 {
					es[a], es[b] = es[b], es[a]
				}
			}
			var want []kvp
			wantCls := ""
			for _, e := range es {
				k, ok := rawDecK(e.k)
				if !ok {
					wantCls = "EDecode"
					break
				}
				v := uint16(0)
				if o.K == "iter" {
					if v, ok = rawDecV(e.v); !ok {
						wantCls = "EDecode"
						break
					}
				}
				want = append(want, kvp{k, v})
				if len(want) >= o.Limit {
					break
				}
			}
			if x.cls != wantCls || fmt.Sprint(x.list) != fmt.Sprint(want) {
				fail(i, "iteration delivered %v class %q, the raw entries decode to %v class %q", x.list, x.cls, want, wantCls)
			}
		case "delprefix", "clear":
			want := []entry{}
			for _, e := range before {
				if o.K == "delprefix" && !bytes.HasPrefix(e.k, toBytes(o.Prefix)) {
					want = append(want, e)
				}
			}
			if x.cls != "" || !sameStore(want, x.store) {
				fail(i, "%s: class %q, wrong remaining store", o.K, x.cls)
			}
		}
	}
	return obs, why
}

// ---------- generators ----------

var values = []uint16{0, 1, 2, 7, 255, 256, 4660, 65534, 65535}
var tsKeys = []uint8{0x00, 0x01, 0x10, 0x11, 0x1F, 0xFF}
var prefixes = [][]int{{}, {0}, {1}, {1, 1}, {2}, {1, 15}, {0, 0, 0}}
var limits = []int{1, 2, 3, 100}

func genFaults(r *vx.Rng, n int) string {
	den := vx.Pick(r, []int{0, 0, 20, 7, 7, 3})
	b := make([]bool, n)
	if den > 0 {
		for i := range b {
			b[i] = r.Chance(1, den)
		}
	}
	return faultString(b)
}

func genValue(r *vx.Rng) uint16 {
	if r.Chance(1, 12) {
		return uint16(r.Intn(65536))
	}
	return vx.Pick(r, values)
}

func genTV(r *vx.Rng, n int) kcase {
	c := kcase{Kind: "tv", Tag: "random"}
	switch k := r.Intn(100); {
	case k < 40:
	case k < 75:
		b, _ := rawEncV(vx.Pick(r, values[:8]))
		c.InitThere, c.InitRaw = true, toInts(b)
	case k < 90:
		c.InitThere, c.InitRaw = true, vx.Pick(r, [][]int{{}, {7}})
	default:
		c.InitThere, c.InitRaw = true, vx.Pick(r, [][]int{{0, 5, 9}, {255, 255}, {255, 254, 1, 2}})
	}
	for len(c.TV) < n {
		switch k := r.Intn(100); {
		case k < 22:
			c.TV = append(c.TV, tvop{K: "get"})
		case k < 36:
			c.TV = append(c.TV, tvop{K: "has"})
		case k < 52:
			c.TV = append(c.TV, tvop{K: "set", V: genValue(r)})
		case k < 64:
			c.TV = append(c.TV, tvop{K: "del"})
		default:
			f := vx.Pick(r, []string{"const", "incr", "incr", "incr", "keep", "fail", "initkeep", "failex"})
			o := tvop{K: "cmp", F: f}
			if f == "const" || f == "initkeep" {
				o.V = genValue(r)
			}
			c.TV = append(c.TV, o)
		}
	}
	c.Faults = genFaults(r, 4*n)
	c.Shapes = genShapes(r)
	if r.Chance(1, 2) {
		c.Codec = "scratch"
	}
	return c
}

func genTS(r *vx.Rng, n int) kcase {
	c := kcase{Kind: "ts", Tag: "random"}
	if r.Chance(1, 2) {
		for i, m := 0, r.Intn(5); i < m; i++ {
			kb, _ := rawEncK(vx.Pick(r, tsKeys[:5]))
			vb, _ := rawEncV(vx.Pick(r, values[:8]))
			c.InitStore = append(c.InitStore, [2][]int{toInts(kb), toInts(vb)})
		}
	}
	calls := 0
	for len(c.TS) < n {
		key := vx.Pick(r, tsKeys)
		if key == 0xFF && !r.Chance(1, 3) {
			key = vx.Pick(r, tsKeys[:5])
		}
		switch k := r.Intn(100); {
		case k < 18:
			c.TS = append(c.TS, tsop{K: "get", Key: key})
		case k < 28:
			c.TS = append(c.TS, tsop{K: "has", Key: key})
		case k < 55:
			c.TS = append(c.TS, tsop{K: "set", Key: key, V: genValue(r)})
		case k < 65:
			c.TS = append(c.TS, tsop{K: "del", Key: key})
		case k < 80:
			c.TS = append(c.TS, tsop{K: "iter", Prefix: vx.Pick(r, prefixes), Back: r.Chance(1, 3), Limit: vx.Pick(r, limits)})
			calls += 8
		case k < 87:
			c.TS = append(c.TS, tsop{K: "iterkeys", Prefix: vx.Pick(r, prefixes), Back: r.Chance(1, 3), Limit: vx.Pick(r, limits)})
			calls += 4
		case k < 91:
			c.TS = append(c.TS, tsop{K: "delprefix", Prefix: vx.Pick(r, prefixes[1:])})
		case k < 93:
			c.TS = append(c.TS, tsop{K: "clear"})
		default:
			// a write below the typed view: mostly malformed keys/values (the edge stream)
			rk := vx.Pick(r, [][]int{{1}, {1, 16}, {0, 0, 0}, {1, 1}, {0, 1}, {}})
			rv := vx.Pick(r, [][]int{{}, {9}, {0, 5}, {0, 5, 9}})
			c.TS = append(c.TS, tsop{K: "rawset", RawK: rk, RawV: rv})
		}
		calls += 3
	}
	c.Faults = genFaults(r, calls)
	c.Shapes = genShapes(r)
	if r.Chance(1, 2) {
		c.Codec = "scratch"
	}
	return c
}

func directed() []kcase {
	enc := func(v uint16) []int { b, _ := rawEncV(v); return toInts(b) }
	return []kcase{
		// D06 (repaired): Compute whose encode fails (by the codec itself / by an injected fault) after Set(7)
		{Kind: "tv", Tag: "D06-natural", TV: []tvop{{K: "set", V: 7}, {K: "cmp", F: "const", V: 65535}, {K: "get"}, {K: "has"}}},
		{Kind: "tv", Tag: "D06-fault", Faults: "00001", TV: []tvop{{K: "set", V: 7}, {K: "cmp", F: "const", V: 13}, {K: "get"}, {K: "cmp", F: "incr"}}},
		{Kind: "tv", Tag: "D06-incr-to-unencodable", InitThere: true, InitRaw: enc(65534), TV: []tvop{{K: "cmp", F: "incr"}, {K: "get"}, {K: "cmp", F: "incr"}}},
		// NotChanged on an absent key returns the zero value and nil; Has-cache then Compute
		{Kind: "tv", Tag: "keep-absent", TV: []tvop{{K: "cmp", F: "keep"}, {K: "has"}, {K: "cmp", F: "keep"}, {K: "cmp", F: "initkeep", V: 2}, {K: "cmp", F: "initkeep", V: 3}, {K: "get"}}},
		// hasCached=true without a cached value (Has first), store faults on the re-read of Compute
		{Kind: "tv", Tag: "has-then-compute", InitThere: true, InitRaw: enc(256), Faults: "0100100", TV: []tvop{{K: "has"}, {K: "cmp", F: "incr"}, {K: "cmp", F: "incr"}, {K: "cmp", F: "incr"}, {K: "get"}}},
		// undecodable raw bytes
		{Kind: "tv", Tag: "malformed", InitThere: true, InitRaw: []int{7}, TV: []tvop{{K: "has"}, {K: "get"}, {K: "cmp", F: "incr"}, {K: "set", V: 1}, {K: "get"}}},
		// Delete failing, then succeeding; Get caches the absence
		{Kind: "tv", Tag: "delete", InitThere: true, InitRaw: enc(2), Faults: "001", TV: []tvop{{K: "get"}, {K: "del"}, {K: "get"}, {K: "del"}, {K: "get"}, {K: "has"}, {K: "cmp", F: "failex"}, {K: "cmp", F: "failex"}}},
		// error classification: the sentinel inside an error tree means what the bare sentinel means
		{Kind: "tv", Tag: "notchanged-in-tree", Shapes: []int{6, 9, 11, 13, 15}, TV: []tvop{{K: "set", V: 7}, {K: "cmp", F: "keep"}, {K: "cmp", F: "initkeep", V: 2}, {K: "cmp", F: "keep"}, {K: "cmp", F: "keep"}, {K: "cmp", F: "keep"}, {K: "get"}}},
		{Kind: "tv", Tag: "notfound-in-tree-compute", Shapes: []int{11}, TV: []tvop{{K: "cmp", F: "const", V: 1}, {K: "get"}}},
		{Kind: "tv", Tag: "notfound-in-tree-get", Shapes: []int{7, 10, 12, 14}, TV: []tvop{{K: "get"}, {K: "get"}, {K: "has"}, {K: "cmp", F: "initkeep", V: 3}, {K: "get"}}},
		{Kind: "tv", Tag: "notfound-then-keep", Shapes: []int{15, 8}, TV: []tvop{{K: "cmp", F: "keep"}, {K: "cmp", F: "keep"}, {K: "set", V: 2}, {K: "del"}, {K: "cmp", F: "initkeep", V: 5}}},
		// a fault / a failing callback next to errors whose TEXT is that of the sentinels stays a failure
		{Kind: "tv", Tag: "fault-looks-like-notfound", Faults: "1001", Shapes: []int{17, 18}, TV: []tvop{{K: "cmp", F: "incr"}, {K: "get"}, {K: "cmp", F: "incr"}, {K: "get"}}},
		{Kind: "tv", Tag: "fail-looks-like-notchanged", InitThere: true, InitRaw: enc(7), Shapes: []int{1, 1, 17, 18, 17}, TV: []tvop{{K: "cmp", F: "fail"}, {K: "cmp", F: "failex"}, {K: "cmp", F: "fail"}, {K: "get"}}},
		{Kind: "ts", Tag: "get-notfound-in-tree", Shapes: []int{11, 7, 15}, TS: []tsop{{K: "get", Key: 0x10}, {K: "set", Key: 0x10, V: 2}, {K: "get", Key: 0x11}, {K: "get", Key: 0x10}, {K: "del", Key: 0x10}, {K: "get", Key: 0x10}}},
		// encoders that reuse a scratch buffer: the stored bytes must not alias what the encoder handed out
		{Kind: "ts", Tag: "scratch-two-keys", Codec: "scratch", TS: []tsop{{K: "set", Key: 0x01, V: 1}, {K: "set", Key: 0x10, V: 2}, {K: "get", Key: 0x01}, {K: "set", Key: 0x11, V: 65535}, {K: "get", Key: 0x10}, {K: "iter", Prefix: []int{}, Limit: 100}}},
		{Kind: "tv", Tag: "scratch-failed-encode", Codec: "scratch", Faults: "0000001", TV: []tvop{{K: "set", V: 7}, {K: "set", V: 65535}, {K: "get"}, {K: "cmp", F: "const", V: 65535}, {K: "cmp", F: "incr"}, {K: "cmp", F: "incr"}, {K: "get"}}},
		{Kind: "ts", Tag: "iterate", TS: []tsop{{K: "set", Key: 0x11, V: 1}, {K: "set", Key: 0x10, V: 2}, {K: "set", Key: 0x01, V: 3}, {K: "iter", Prefix: []int{1}, Limit: 100}, {K: "iter", Prefix: []int{}, Back: true, Limit: 2}, {K: "rawset", RawK: []int{1, 16}, RawV: []int{0, 1}}, {K: "iter", Prefix: []int{1}, Limit: 100}, {K: "iterkeys", Prefix: []int{1}, Back: true, Limit: 100}, {K: "delprefix", Prefix: []int{1}}, {K: "iter", Prefix: []int{}, Limit: 100}}},
		{Kind: "ts", Tag: "faults", Faults: "0000010000000100001", TS: []tsop{{K: "set", Key: 0x11, V: 1}, {K: "set", Key: 0x10, V: 2}, {K: "get", Key: 0x10}, {K: "get", Key: 0x10}, {K: "iter", Prefix: []int{}, Limit: 100}, {K: "del", Key: 0x10}, {K: "del", Key: 0x10}, {K: "has", Key: 0x10}}},
	}
}

// ---------- emission ----------

func emit(cf *vx.CasesFile, st *vx.Stats, c kcase) {
	var term, key, why string
	nontrivial := false
	if c.Kind == "tv" {
		obs, w := runTV(c)
		why = w
		writes, errs := 0, 0
		for i, x := range obs {
			st.Count("tv:" + c.TV[i].K)
			cl := x.cls
			if cl == "" {
				cl = "ok"
			}
			st.Count("tv-class:" + cl)
			if x.cls == "" && (c.TV[i].K == "set" || c.TV[i].K == "del" || c.TV[i].K == "cmp") {
				writes++
			}
			if x.cls != "" && x.cls != "ENotFound" {
				errs++
			}
		}
		nontrivial = writes >= 1 && errs >= 1
		term = fmt.Sprintf("CTV %s %s %s %s %s", coqOptBytes(toBytes(c.InitRaw), c.InitThere), coqFaults(faultBits(c.Faults)), coqShapes(c.Shapes),
			vx.ListOf(c.TV, tvop.coq), vx.ListOf(obs, tvObs.coq))
		if len(st.Samples) < 2 {
			st.Sample(map[string]any{"case": c, "observed": vx.ListOf(obs, tvObs.coq)}, 4)
		}
	} else {
		obs, w := runTS(c)
		why = w
		sets, iters := 0, 0
		for i, x := range obs {
			st.Count("ts:" + c.TS[i].K)
			cl := x.cls
			if cl == "" {
				cl = "ok"
			}
			st.Count("ts-class:" + cl)
			if x.cls == "" && c.TS[i].K == "set" {
				sets++
			}
			if (x.isList || x.isKeys) && (len(x.list) > 0 || x.cls != "") {
				iters++
			}
		}
		nontrivial = sets >= 1 && iters >= 1
		term = fmt.Sprintf("CTS %s %s %s %s %s", coqStoreInit(c), coqFaults(faultBits(c.Faults)), coqShapes(c.Shapes),
			vx.ListOf(c.TS, tsop.coq), vx.ListOf(obs, tsObs.coq))
		if len(st.Samples) < 4 && c.Tag == "random" {
			st.Sample(map[string]any{"case": c, "observed": vx.ListOf(obs, tsObs.coq)}, 4)
		}
	}
	st.Count("codec:" + map[bool]string{true: "fresh", false: c.Codec}[c.Codec == ""])
	for sh, k := range lastShapeUse {
		for ; k > 0; k-- {
			st.Count(fmt.Sprintf("err-shape:%02d", sh))
		}
	}
	cf.Add(term)
	kb, _ := json.Marshal(c)
	key = string(kb)
	st.Case(key, nontrivial)
	st.CaseIndex = append(st.CaseIndex, c)
	if why != "" {
		st.Fail(map[string]any{"sig": "", "case": c, "why": why})
	}
}

// emitGuarded runs one history under a watchdog: a call that never returns (a lock that is not released)
// becomes a reported outcome instead of a stuck harness.
func emitGuarded(cf *vx.CasesFile, st *vx.Stats, c kcase) bool {
	done := make(chan struct{})
	go func() {
		emit(cf, st, c)
		close(done)
	}()
	select {
	case <-done:
		return true
	case <-time.After(30 * time.Second):
		st.Fail(map[string]any{"sig": "", "case": c, "why": "hang: the history did not finish within 30 s (a lock is not released?)"})
		return false
	}
}

func coqStoreInit(c kcase) string {
	// the initial store as the sorted list mapdb holds after the initial Sets
	inner := mapdb.NewMapDB()
	for _, e := range c.InitStore {
		_ = inner.Set(toBytes(e[0]), toBytes(e[1]))
	}
	return coqStore(snapshot(inner))
}

const header = "From Coq Require Import NArith List Bool.\nFrom Verif.C06_Typed Require Import Model StoreModel Corr.\nImport ListNotations.\nOpen Scope N_scope.\n"
const footer = "Definition M := Eval vm_compute in mismatches cases.\nPrint M.\n"
var lastShapeUse []int // shapes handed out in the last history (statistics only)

const rule = "random histories on a fresh TypedValue[uint16] (Get/Has/Set/Delete/Compute with 6 callbacks; initial raw key absent/valid/undecodable/with trailing bytes) and on a TypedStore[uint8,uint16] (Get/Has/Set/Delete/Iterate/IterateKeys/DeletePrefix/Clear + raw writes of malformed entries; 6 keys, 7 prefixes) over mapdb behind a fault-injecting KVStore and fault-injecting codecs sharing one fault script (density 0, 1/20, 1/7 or 1/3 per history); every error handed to the code under test (ErrKeyNotFound of the store below, injected faults, codec failures, ErrTypedValueNotChanged and failures of the compute callbacks) is presented in the shape the case prescribes for it: bare, wrapped once/twice, inside Join/Chain/Wrapf-with-error-argument/double-%w trees (sentinel first, last, nested), next to errors with the text of a sentinel (19 shapes, 30 % of the histories all bare); in half of the histories the key and value encoders return slices of their own reused scratch buffer (scribbled by a failed call) instead of fresh slices; distinct = distinct (initial store, script, history); non-trivial = TypedValue: at least one successful write and one error other than not-found; TypedStore: at least one successful Set and one iteration that delivered an entry or an error"

func main() {
	if len(os.Args) < 2 {
		vx.Die("usage: hx-c06 hist|replay|conc|win|errs ...")
	}
	fs := flag.NewFlagSet(os.Args[1], flag.ExitOnError)
	n := fs.Int("n", 400, "number of histories")
	maxLen := fs.Int("len", 25, "")
	seed := fs.Uint64("seed", 1, "")
	out := fs.String("out", "cases.v", "")
	stats := fs.String("stats", "stats.json", "")
	casePath := fs.String("case", "", "replay: JSON case")
	runs := fs.Int("runs", 30, "conc: number of runs")
	lists := fs.Int("lists", 6, "win: number of random primary histories (beside the directed ones)")
	waitMs := fs.Int("wait", 20, "win: bounded wait for the intruder, ms")
	workers := fs.Int("workers", 4, "win: schedules run at a time")
	_ = fs.Parse(os.Args[2:])
	r := vx.NewRng(*seed)
	st := vx.NewStats(rule)
	cf := &vx.CasesFile{Header: header, Type: "case", Footer: footer}
	switch os.Args[1] {
	case "hist":
		ok := true
		for _, c := range directed() {
			ok = ok && emitGuarded(cf, st, c)
		}
		for ok && cf.Len() < *n {
			if r.Intn(100) < 62 {
				ok = emitGuarded(cf, st, genTV(r.Fork(), 3+r.Intn(*maxLen)))
			} else {
				ok = emitGuarded(cf, st, genTS(r.Fork(), 3+r.Intn(*maxLen)))
			}
		}
		if !ok {
			// the stuck goroutine may still own cf: report the hang only
			if err := st.Write(*stats); err != nil {
				vx.Die("%v", err)
			}
			return
		}
	case "replay":
		b, err := os.ReadFile(*casePath)
		if err != nil {
			vx.Die("%v", err)
		}
		var c kcase
		if err := json.Unmarshal(b, &c); err != nil {
			vx.Die("%v", err)
		}
		if !emitGuarded(cf, st, c) {
			if err := st.Write(*stats); err != nil {
				vx.Die("%v", err)
			}
			fmt.Println("hang")
			return
		}
		fmt.Println(cf.Len(), "case replayed; oracle failures:", len(st.OracleFailures))
		for _, f := range st.OracleFailures {
			fmt.Println(f)
		}
	case "conc":
		st.Rule = "free-running goroutines on one TypedValue[uint16] over mapdb (no faults): Compute(+1) only (no lost update: returned values are exactly 1..total, reads monotone) and mixed Compute(+1)/Set/Delete/Get/Has (every value read was written; final cache equals the raw key); every run under a watchdog"
		conc(r, st, *runs)
		if err := st.Write(*stats); err != nil {
			vx.Die("%v", err)
		}
		return
	case "errs":
		errsCmd(r, cf, st, *n, *casePath)
	case "win":
		st.Rule = winRule
		if *casePath != "" {
			winReplay(st, *casePath)
		} else {
			win(r, st, *lists, *waitMs, *workers)
		}
		if err := st.Write(*stats); err != nil {
			vx.Die("%v", err)
		}
		return
	default:
		vx.Die("unknown subcommand %s", os.Args[1])
	}
	if err := cf.Write(*out); err != nil {
		vx.Die("%v", err)
	}
	if err := st.Write(*stats); err != nil {
		vx.Die("%v", err)
	}
}
