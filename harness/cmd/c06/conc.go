package main

import (
	"errors"
	"fmt"
	"runtime"
	"sync"
	"time"

	"github.com/iotaledger/hive.go/kvstore"
	"github.com/iotaledger/hive.go/kvstore/mapdb"

	"verif/harness/vx"
)

// conc: free-running goroutines on one TypedValue (no faults), judged by history predicates.
func conc(r *vx.Rng, st *vx.Stats, runs int) {
	for i := 0; i < runs; i++ {
		rr := r.Fork()
		kind := "incr"
		if i%2 == 1 {
			kind = "mixed"
		}
		done := make(chan string, 1)
		go func() {
			if kind == "incr" {
				done <- concIncr(rr)
			} else {
				done <- concMixed(rr)
			}
		}()
		st.Count("conc:" + kind)
		select {
		case why := <-done:
			st.Case(fmt.Sprintf("%s-%d", kind, i), true)
			if why != "" {
				st.Fail(map[string]any{"sig": "", "kind": "concurrent " + kind, "run": i, "why": why})
			}
		case <-time.After(60 * time.Second):
			st.Fail(map[string]any{"sig": "", "kind": "concurrent " + kind, "run": i, "why": "hang: run did not finish within 60 s"})
			return
		}
	}
}

func plainCodecs() (kvstore.ObjectToBytes[uint16], kvstore.BytesToObject[uint16]) {
	return func(v uint16) ([]byte, error) {
			b, ok := rawEncV(v)
			if !ok {
				return nil, errUnencodable
			}
			return b, nil
		}, func(b []byte) (uint16, int, error) {
			v, ok := rawDecV(b)
			if !ok {
				return 0, 0, errMalformed
			}
			return v, 2, nil
		}
}

func finalCoherent(tv *kvstore.TypedValue[uint16], inner kvstore.KVStore) string {
	raw, there := readRaw(inner)
	v, err := tv.Get()
	h, herr := tv.Has()
	if herr != nil || h != there {
		return fmt.Sprintf("final Has=%v,%v but raw key present=%v", h, herr, there)
	}
	if !there {
		if !errors.Is(err, kvstore.ErrKeyNotFound) {
			return fmt.Sprintf("final Get=%d,%v but the raw key is absent", v, err)
		}
		return ""
	}
	d, ok := rawDecV(raw)
	if err != nil || !ok || d != v {
		return fmt.Sprintf("final Get=%d,%v but the raw key holds %v", v, err, raw)
	}
	return ""
}

// k writers x per Compute(+1), some readers: the returned values are exactly base+1..base+total (no lost
// update), the final value is base+total, every reader sees a non-decreasing sequence of written values.
func concIncr(r *vx.Rng) string {
	inner := mapdb.NewMapDB()
	ev, dv := plainCodecs()
	tv := kvstore.NewTypedValue[uint16](inner, tvKey, ev, dv)
	base := uint16(0)
	if r.Chance(1, 2) {
		base = uint16(1 + r.Intn(500))
		b, _ := rawEncV(base)
		_ = inner.Set(tvKey, b)
		if r.Chance(1, 2) {
			_, _ = tv.Has() // presence cached, value not
		}
	}
	writers, readers, per := 2+r.Intn(7), r.Intn(4), 40+r.Intn(60)
	rets := make([][]uint16, writers)
	reads := make([][]int, readers) // -1 = not found
	errs := make(chan string, writers+readers)
	var wg sync.WaitGroup
	start := make(chan struct{})
	for w := 0; w < writers; w++ {
		wg.Add(1)
		go func(w int) {
			defer wg.Done()
			<-start
			for j := 0; j < per; j++ {
				v, err := tv.Compute(func(cur uint16, ex bool) (uint16, error) { return cur + 1, nil })
				if err != nil {
					report(errs, "Compute failed: "+err.Error())
					return
				}
				rets[w] = append(rets[w], v)
				if j%7 == 0 {
					runtime.Gosched()
				}
			}
		}(w)
	}
	for q := 0; q < readers; q++ {
		wg.Add(1)
		go func(q int) {
			defer wg.Done()
			<-start
			for j := 0; j < per; j++ {
				v, err := tv.Get()
				switch {
				case err == nil:
					reads[q] = append(reads[q], int(v))
				case errors.Is(err, kvstore.ErrKeyNotFound):
					reads[q] = append(reads[q], -1)
				default:
					report(errs, "Get failed: "+err.Error())
					return
				}
				runtime.Gosched()
			}
		}(q)
	}
	close(start)
	wg.Wait()
	select {
	case e := <-errs:
		return e
	default:
	}
	total := writers * per
	seen := map[uint16]bool{}
	for w, l := range rets {
		for j, v := range l {
			if seen[v] {
				return fmt.Sprintf("lost update: two Compute(+1) calls returned %d", v)
			}
			seen[v] = true
			if j > 0 && l[j-1] >= v {
				return fmt.Sprintf("writer %d saw %d after %d", w, v, l[j-1])
			}
			if v <= base || int(v) > int(base)+total {
				return fmt.Sprintf("Compute(+1) returned %d outside %d..%d", v, base+1, int(base)+total)
			}
		}
	}
	if len(seen) != total {
		return fmt.Sprintf("%d distinct results for %d increments", len(seen), total)
	}
	for q, l := range reads {
		last := -1
		for _, v := range l {
			if v < last {
				return fmt.Sprintf("reader %d saw %d after %d", q, v, last)
			}
			if v >= 0 && (v < int(base) || v > int(base)+total || (base == 0 && v == 0)) {
				return fmt.Sprintf("reader %d saw %d, never written", q, v)
			}
			last = v
		}
	}
	if v, err := tv.Get(); err != nil || int(v) != int(base)+total {
		return fmt.Sprintf("final value %d,%v, want %d", v, err, int(base)+total)
	}
	return finalCoherent(tv, inner)
}

// writers do Compute(+1) / Set(unique) / Delete / Compute(not changed), readers Get/Has:
// every value read or returned was written before the read returned; the final cache equals the raw key.
func concMixed(r *vx.Rng) string {
	inner := mapdb.NewMapDB()
	ev, dv := plainCodecs()
	tv := kvstore.NewTypedValue[uint16](inner, tvKey, ev, dv)
	writers, readers, per := 2+r.Intn(5), 1+r.Intn(3), 40+r.Intn(40)
	type wop struct {
		k string
		v uint16
	}
	scripts := make([][]wop, writers)
	for w := range scripts {
		for j := 0; j < per; j++ {
			switch k := r.Intn(10); {
			case k < 5:
				scripts[w] = append(scripts[w], wop{k: "incr"})
			case k < 8:
				scripts[w] = append(scripts[w], wop{k: "set", v: uint16(1000*(w+1) + j)})
			case k < 9:
				scripts[w] = append(scripts[w], wop{k: "del"})
			default:
				scripts[w] = append(scripts[w], wop{k: "keep"})
			}
		}
	}
	var mu sync.Mutex
	written := map[uint16]bool{} // values whose write call has STARTED (a read may see it before the call returns)
	errs := make(chan string, writers+readers+1)
	var wg sync.WaitGroup
	start := make(chan struct{})
	note := func(v uint16) { mu.Lock(); written[v] = true; mu.Unlock() }
	known := func(v uint16) bool { mu.Lock(); defer mu.Unlock(); return written[v] }
	for w := 0; w < writers; w++ {
		wg.Add(1)
		go func(w int) {
			defer wg.Done()
			<-start
			for _, o := range scripts[w] {
				switch o.k {
				case "incr":
					v, err := tv.Compute(func(cur uint16, ex bool) (uint16, error) {
						if ex && !known(cur) {
							report(errs, fmt.Sprintf("Compute callback saw %d, never written", cur))
						}
						if !ex && cur != 0 {
							report(errs, fmt.Sprintf("Compute callback saw (%d,false)", cur))
						}
						note(cur + 1) // inside the write lock: nobody can see cur+1 before this
						return cur + 1, nil
					})
					if err != nil || !known(v) {
						report(errs, fmt.Sprintf("Compute(+1) = %d,%v", v, err))
						return
					}
				case "set":
					note(o.v)
					if err := tv.Set(o.v); err != nil {
						report(errs, "Set failed: "+err.Error())
						return
					}
				case "del":
					if err := tv.Delete(); err != nil {
						report(errs, "Delete failed: "+err.Error())
						return
					}
				case "keep":
					v, err := tv.Compute(func(cur uint16, ex bool) (uint16, error) {
						if ex && !known(cur) {
							report(errs, fmt.Sprintf("Compute callback saw %d, never written", cur))
						}
						return 0, kvstore.ErrTypedValueNotChanged
					})
					if err != nil || (v != 0 && !known(v)) {
						report(errs, fmt.Sprintf("Compute(keep) = %d,%v", v, err))
						return
					}
				}
			}
		}(w)
	}
	for q := 0; q < readers; q++ {
		wg.Add(1)
		go func(q int) {
			defer wg.Done()
			<-start
			for j := 0; j < per; j++ {
				if j%3 == 2 {
					if _, err := tv.Has(); err != nil {
						report(errs, "Has failed: "+err.Error())
						return
					}
					continue
				}
				v, err := tv.Get()
				if err != nil && !errors.Is(err, kvstore.ErrKeyNotFound) {
					report(errs, "Get failed: "+err.Error())
					return
				}
				if err == nil && !known(v) {
					report(errs, fmt.Sprintf("reader %d saw %d, never written", q, v))
					return
				}
				runtime.Gosched()
			}
		}(q)
	}
	close(start)
	wg.Wait()
	select {
	case e := <-errs:
		return e
	default:
	}
	return finalCoherent(tv, inner)
}

func report(errs chan string, s string) {
	select {
	case errs <- s:
	default:
	}
}
