// Error shapes and error trees (round-4 strengthening, class "error classification").
//
// TypedValue decides what an error MEANS with ierrors.Is: ErrKeyNotFound from the store's Get, ErrTypedValueNotChanged
// from the compute function.  errors.Is looks for the sentinel anywhere in the error TREE (Unwrap() error and
// Unwrap() []error), so the meaning of an error must depend only on which sentinels are in its tree, never on how it
// is wrapped.  This file gives
//   - shapes: 19 ways to present one error e (bare, wrapped once/twice through every single-%w constructor of
//     ierrors, inside Join/Chain/Wrapf-with-error-argument/WithMessagef-with-error-argument/double-%w trees with the
//     sentinel first, last and nested, and next to errors whose TEXT is that of a sentinel).  Every error the
//     harness hands to the code under test (store wrapper, codecs, compute callbacks) is passed through the shape the
//     case prescribes for it; the oracle and the Coq model judge by class only (mirrored by ErrTree.shape_apply).
//   - a differential of ierrors.Is / As / Unwrap / Join / Chain / Wrap* against (a) the standard library and (b) an
//     independent reference walk over the DESCRIPTION of generated error trees (subcommand errs); the descriptions
//     and what ierrors.Is/As answered go to Coq (ErrTree.contains / first_tag).
package main

import (
	"encoding/json"
	"errors"
	"fmt"
	"os"

	"github.com/iotaledger/hive.go/ierrors"
	"github.com/iotaledger/hive.go/kvstore"

	"verif/harness/vx"
)

// ---------- leaves ----------

type tagErr struct{ n int }

func (t *tagErr) Error() string { return fmt.Sprintf("tagged error %d", t.n) }

const (
	idNotFound = iota
	idNotChanged
	idInjected
	idMalformed
	idUnencodable
	idCompute
	idNoise
	idLookNotFound
	idLookNotChanged
	idTag0
	idTag1
	idTag2
	nLeaves
	idOpaque = 99 // an error without Unwrap that is none of the above (fmt.Errorf with %v of an error, ...)
)

var (
	errNoise          = errors.New("limit reached")
	errLookNotFound   = errors.New(kvstore.ErrKeyNotFound.Error())          // same text, other identity
	errLookNotChanged = errors.New(kvstore.ErrTypedValueNotChanged.Error()) // same text, other identity
	leafErrs          = []error{kvstore.ErrKeyNotFound, kvstore.ErrTypedValueNotChanged, errInjected, errMalformed, errUnencodable,
		errCompute, errNoise, errLookNotFound, errLookNotChanged, &tagErr{0}, &tagErr{1}, &tagErr{2}}
)

func leafID(e error) int {
	for i, l := range leafErrs {
		if l == e {
			return i
		}
	}
	return idOpaque
}

// ---------- descriptions ----------

// enode describes an error tree: leaf (ID), wrap (one child, Unwrap() error), multi (children, Unwrap() []error).
type enode struct {
	K    string   `json:"k"` // leaf wrap multi
	ID   int      `json:"id,omitempty"`
	Via  string   `json:"via,omitempty"` // constructor used
	Kids []*enode `json:"kids,omitempty"`
	err  error
}

func leaf(id int) *enode { return &enode{K: "leaf", ID: id, err: leafErrs[id]} }
func leafOf(e error) *enode {
	return &enode{K: "leaf", ID: leafID(e), err: e}
}
func opaque(e error, via string) *enode { return &enode{K: "leaf", ID: idOpaque, Via: via, err: e} }
func wrapN(e error, via string, kid *enode) *enode {
	return &enode{K: "wrap", Via: via, Kids: []*enode{kid}, err: e}
}
func multiN(e error, via string, kids ...*enode) *enode {
	return &enode{K: "multi", Via: via, Kids: kids, err: e}
}

func (n *enode) coq() string {
	switch n.K {
	case "leaf":
		return fmt.Sprintf("(ELeaf %d)", n.ID)
	case "wrap":
		return "(EWrap " + n.Kids[0].coq() + ")"
	}
	return "(EMulti " + vx.ListOf(n.Kids, (*enode).coq) + ")"
}

func (n *enode) size() int {
	s := 1
	for _, k := range n.Kids {
		s += k.size()
	}
	return s
}

func (n *enode) hasMulti() bool {
	if n.K == "multi" {
		return true
	}
	for _, k := range n.Kids {
		if k.hasMulti() {
			return true
		}
	}
	return false
}

// reference semantics, on the description only (independent of errors.Is / ierrors.Is)
func refContains(n *enode, id int) bool {
	if n.K == "leaf" {
		return n.ID == id
	}
	for _, k := range n.Kids {
		if refContains(k, id) {
			return true
		}
	}
	return false
}

func isTag(id int) bool { return id >= idTag0 && id <= idTag2 }

func refFirstTag(n *enode) int { // depth-first, pre-order; -1 = none
	if n.K == "leaf" {
		if isTag(n.ID) {
			return n.ID
		}
		return -1
	}
	for _, k := range n.Kids {
		if t := refFirstTag(k); t >= 0 {
			return t
		}
	}
	return -1
}

// custom error types with the two Unwrap forms (what a caller-defined store error looks like)
type myWrap struct{ inner error }

func (w *myWrap) Error() string { return "mywrap(" + w.inner.Error() + ")" }
func (w *myWrap) Unwrap() error { return w.inner }

type myMulti struct{ inner []error }

func (m *myMulti) Error() string   { return fmt.Sprintf("mymulti(%d errors)", len(m.inner)) }
func (m *myMulti) Unwrap() []error { return m.inner }

// ---------- constructors: (error built through ierrors / fmt, its description) ----------

var wrapVias = []string{"Wrap", "Wrapf", "Errorf", "WithMessage", "WithMessagef", "WithStack", "myWrap", "ErrorfLook"}
var multiVias = []string{"Join", "Join", "JoinNil", "Chain", "Chain", "WrapfErr", "WrapfErrV", "WithMessagefErr", "WithMessagefErrV", "Errorf2", "Errorf3", "myMulti"}

func mkWrap(via string, k *enode) *enode {
	switch via {
	case "Wrap":
		return wrapN(ierrors.Wrap(k.err, "ctx"), via, k)
	case "Wrapf":
		return wrapN(ierrors.Wrapf(k.err, "ctx %d", 3), via, k)
	case "Errorf":
		return wrapN(ierrors.Errorf("ctx: %w", k.err), via, k)
	case "WithMessage":
		return wrapN(ierrors.WithMessage(k.err, "msg"), via, k)
	case "WithMessagef":
		return wrapN(ierrors.WithMessagef(k.err, "msg %s", "x"), via, k)
	case "WithStack": // identity in the default build
		if e := ierrors.WithStack(k.err); e != k.err {
			return wrapN(e, via, k)
		}
		return k
	case "myWrap":
		return wrapN(&myWrap{k.err}, via, k)
	}
	// single %w with the TEXT of the sentinels in the message
	return wrapN(ierrors.Errorf("%w: key not found: typed value not changed", k.err), via, k)
}

// mkMulti builds a multi-error node over kids (2 or 3) with the named constructor.
func mkMulti(via string, kids []*enode) *enode {
	es := make([]error, len(kids))
	for i, k := range kids {
		es[i] = k.err
	}
	chain := func(ks []*enode) *enode { // Chain = left fold of fmt.Errorf("%w: %w", acc, next)
		acc := ks[0]
		for _, k := range ks[1:] {
			acc = multiN(nil, "Chain", acc, k)
		}
		return acc
	}
	switch via {
	case "Join":
		return multiN(ierrors.Join(es...), via, kids...)
	case "JoinNil": // nil arguments are discarded
		with := []error{nil}
		for _, e := range es {
			with = append(with, e, nil)
		}
		return multiN(ierrors.Join(with...), via, kids...)
	case "Chain":
		n := chain(kids)
		setErrs(n, ierrors.Chain(append([]error{nil}, es...)...))
		return n
	case "WrapfErr": // Wrapf(err, "...%w", other) = "%w: %w" of (Errorf(format, other), err)
		rest := chainErr(kids[1:])
		n := multiN(ierrors.Wrapf(kids[0].err, "ctx: %w", rest.err), via, wrapN(nil, "Errorf", rest), kids[0])
		setErrs(n, n.err)
		return n
	case "WrapfErrV": // the error argument formatted with %v: not part of the tree
		rest := chainErr(kids[1:])
		n := multiN(ierrors.Wrapf(kids[0].err, "ctx: %v", rest.err), via, opaque(nil, "Errorf%v"), kids[0])
		setErrs(n, n.err)
		return n
	case "WithMessagefErr":
		rest := chainErr(kids[1:])
		n := multiN(ierrors.WithMessagef(kids[0].err, "msg: %w", rest.err), via, kids[0], wrapN(nil, "Errorf", rest))
		setErrs(n, n.err)
		return n
	case "WithMessagefErrV":
		rest := chainErr(kids[1:])
		n := multiN(ierrors.WithMessagef(kids[0].err, "msg: %v", rest.err), via, kids[0], opaque(nil, "Errorf%v"))
		setErrs(n, n.err)
		return n
	case "Errorf2":
		if len(kids) == 2 {
			return multiN(ierrors.Errorf("%w and %w", es[0], es[1]), via, kids...)
		}
		return multiN(ierrors.Errorf("%w, %w and %w", es[0], es[1], es[2]), via, kids...)
	case "Errorf3": // %w mixed with other verbs
		return multiN(ierrors.Errorf("%d: %w (%s) %w", 7, es[0], "x", es[len(es)-1]), via, kids[0], kids[len(kids)-1])
	}
	return multiN(&myMulti{es}, via, kids...)
}

func chainErr(ks []*enode) *enode {
	if len(ks) == 1 {
		return ks[0]
	}
	return mkMulti("Join", ks)
}

// setErrs fills in the error objects of nodes that were created by ONE library call (Chain, Wrapf with an error
// argument): the inner nodes are what Unwrap of the result gives; a shape that does not match the description
// leaves err == nil there, which the differential reports.
func setErrs(n *enode, e error) {
	n.err = e
	switch n.K {
	case "wrap":
		if n.Kids[0].err == nil {
			setErrs(n.Kids[0], errors.Unwrap(e))
		}
	case "multi":
		var sub []error
		if u, ok := e.(interface{ Unwrap() []error }); ok {
			sub = u.Unwrap()
		}
		for i, k := range n.Kids {
			if k.err == nil && i < len(sub) {
				setErrs(k, sub[i])
			}
		}
	}
}

// ---------- shapes (mirrored by ErrTree.shape_apply) ----------

const nShapes = 19

var treeShapes = []int{6, 7, 8, 9, 10, 11, 12, 13, 14, 15, 16, 17}

func shapeNode(sh int, e *enode) *enode {
	n := func() *enode { return leaf(idNoise) }
	switch sh {
	case 1:
		return mkWrap("Wrap", e)
	case 2:
		return mkWrap("Wrapf", e)
	case 3:
		return mkWrap("Errorf", e)
	case 4:
		return mkWrap("WithMessage", e)
	case 5:
		return mkWrap("Wrap", mkWrap("WithMessagef", e))
	case 6:
		return mkMulti("Join", []*enode{e, n()})
	case 7:
		return mkMulti("Join", []*enode{n(), e})
	case 8:
		return mkMulti("Chain", []*enode{e, n()})
	case 9:
		return mkMulti("Chain", []*enode{n(), e})
	case 10:
		return mkMulti("Chain", []*enode{n(), e, n()})
	case 11:
		return mkMulti("WrapfErr", []*enode{e, n()})
	case 12:
		return mkMulti("WithMessagefErr", []*enode{e, n()})
	case 13:
		return mkMulti("Errorf2", []*enode{n(), e})
	case 14:
		return mkMulti("Errorf2", []*enode{e, n()})
	case 15:
		return mkWrap("Wrap", mkMulti("Join", []*enode{n(), mkWrap("Wrap", mkMulti("Join", []*enode{n(), e}))}))
	case 16:
		return mkMulti("Join", []*enode{e})
	case 17: // next to errors whose text is that of the sentinels
		return mkMulti("Join", []*enode{e, leaf(idLookNotFound), leaf(idLookNotChanged)})
	case 18:
		return mkWrap("ErrorfLook", e)
	}
	return e
}

// shaper hands out the shape of the k-th error the harness produces in one case (nil receiver / no shapes = bare).
type shaper struct {
	shapes []int
	n      int
	used   []int
}

func (s *shaper) wrap(e error) error {
	if s == nil || len(s.shapes) == 0 || e == nil {
		return e
	}
	sh := s.shapes[s.n%len(s.shapes)] % nShapes
	s.n++
	if s.used == nil {
		s.used = make([]int, nShapes)
	}
	s.used[sh]++
	return shapeNode(sh, leafOf(e)).err
}

func genShapes(r *vx.Rng) []int {
	switch k := r.Intn(100); {
	case k < 30:
		return nil // all bare
	case k < 45: // one shape throughout
		return []int{r.Intn(nShapes)}
	case k < 65: // tree shapes only
		s := make([]int, 1+r.Intn(6))
		for i := range s {
			s[i] = vx.Pick(r, treeShapes)
		}
		return s
	}
	s := make([]int, 1+r.Intn(8))
	for i := range s {
		s[i] = r.Intn(nShapes)
	}
	return s
}

func coqShapes(s []int) string {
	return vx.ListOf(s, func(i int) string { return fmt.Sprintf("%d%%nat", i) })
}

// ---------- differential on generated trees ----------

// recipe: how a tree is built (constructor names); build() makes the error and its description.
type recipe struct {
	Via  string    `json:"via"` // leaf, or one of wrapVias / multiVias
	ID   int       `json:"id,omitempty"`
	Kids []*recipe `json:"kids,omitempty"`
}

func (rc *recipe) build() *enode {
	if rc.Via == "leaf" || len(rc.Kids) == 0 {
		return leaf(rc.ID % nLeaves)
	}
	kids := make([]*enode, len(rc.Kids))
	for i, k := range rc.Kids {
		kids[i] = k.build()
	}
	for _, w := range wrapVias {
		if w == rc.Via {
			return mkWrap(rc.Via, kids[0])
		}
	}
	return mkMulti(rc.Via, kids)
}

func genTree(r *vx.Rng, depth int) *recipe {
	if depth <= 0 || r.Chance(1, 4) {
		switch k := r.Intn(10); {
		case k < 5:
			return &recipe{Via: "leaf", ID: r.Intn(idNoise)} // a sentinel
		case k < 7:
			return &recipe{Via: "leaf", ID: idNoise + r.Intn(3)}
		default:
			return &recipe{Via: "leaf", ID: idTag0 + r.Intn(3)}
		}
	}
	if r.Chance(2, 5) {
		return &recipe{Via: vx.Pick(r, wrapVias), Kids: []*recipe{genTree(r, depth-1)}}
	}
	kids := make([]*recipe, 2+r.Intn(2))
	for i := range kids {
		kids[i] = genTree(r, depth-1-r.Intn(2))
	}
	return &recipe{Via: vx.Pick(r, multiVias), Kids: kids}
}

type ecase struct {
	Kind  string `json:"kind"` // err
	Tag   string `json:"tag"`
	Shape int    `json:"shape,omitempty"` // tag "shape": shapeNode(Shape, leaf(Leaf))
	Leaf  int    `json:"leaf,omitempty"`
	Tree  *recipe `json:"tree,omitempty"`
}

// checkTree runs the differential on one tree; returns the Coq case and the first disagreement.
func checkTree(n *enode) (isObs []bool, asObs int, why string) {
	fail := func(format string, a ...any) {
		if why == "" {
			why = fmt.Sprintf(format, a...)
		}
	}
	func() {
		defer func() {
			if r := recover(); r != nil {
				fail("panicked: %v", r)
			}
		}()
		for id := 0; id < nLeaves; id++ {
			got, std, ref := ierrors.Is(n.err, leafErrs[id]), errors.Is(n.err, leafErrs[id]), refContains(n, id)
			isObs = append(isObs, got)
			if got != ref || std != ref {
				fail("ierrors.Is(tree, %q #%d) = %v, errors.Is = %v, the tree %s it: %s", leafErrs[id], id, got, std,
					map[bool]string{true: "contains", false: "does not contain"}[ref], n.coq())
			}
		}
		var t1, t2 *tagErr
		g1, g2 := ierrors.As(n.err, &t1), errors.As(n.err, &t2)
		want := refFirstTag(n)
		asObs = -1
		if g1 && t1 != nil {
			asObs = leafID(t1)
		}
		if g1 != g2 || t1 != t2 || asObs != want {
			fail("ierrors.As(tree, *tagErr) = %v -> leaf %d, errors.As = %v, first tagged leaf of the tree is %d: %s", g1, asObs, g2, want, n.coq())
		}
		checkUnwrap(n, fail)
	}()
	return isObs, asObs, why
}

// checkUnwrap: every node's error object unwraps to exactly the described children (single / multi / none).
func checkUnwrap(n *enode, fail func(string, ...any)) {
	if n.err == nil {
		fail("description has a %s node (%s) where the library built no error", n.K, n.Via)
		return
	}
	u1, u2 := ierrors.Unwrap(n.err), errors.Unwrap(n.err)
	if u1 != u2 {
		fail("ierrors.Unwrap != errors.Unwrap on a %s node (%s)", n.K, n.Via)
	}
	var sub []error
	if u, ok := n.err.(interface{ Unwrap() []error }); ok {
		sub = u.Unwrap()
	}
	switch n.K {
	case "leaf":
		if u1 != nil || sub != nil {
			fail("a leaf (%d, %s) unwraps to something", n.ID, n.Via)
		}
	case "wrap":
		if u1 != n.Kids[0].err || sub != nil {
			fail("%s(e) does not unwrap to e", n.Via)
		}
	case "multi":
		if u1 != nil {
			fail("Unwrap of a multi-error node (%s) is not nil", n.Via)
		}
		if len(sub) != len(n.Kids) {
			fail("%s over %d errors holds %d", n.Via, len(n.Kids), len(sub))
			return
		}
		for i, k := range n.Kids {
			if sub[i] != k.err {
				fail("%s: child %d is not the %d-th non-nil argument", n.Via, i, i)
			}
		}
	}
	for _, k := range n.Kids {
		checkUnwrap(k, fail)
	}
}

func (c ecase) build() *enode {
	if c.Tag == "shape" {
		return shapeNode(c.Shape, leaf(c.Leaf))
	}
	return c.Tree.build()
}

func emitErr(cf *vx.CasesFile, st *vx.Stats, c ecase) {
	n := c.build()
	isObs, asObs, why := checkTree(n)
	as := "None"
	if asObs >= 0 {
		as = fmt.Sprintf("(Some %d)", asObs)
	}
	for len(isObs) < nLeaves {
		isObs = append(isObs, false)
	}
	if c.Tag == "shape" {
		cf.Add(fmt.Sprintf("CShape %d %d %s %s", c.Shape, c.Leaf, vx.ListOf(isObs, vx.Bool), as))
	} else {
		cf.Add(fmt.Sprintf("CErr %s %s %s", n.coq(), vx.ListOf(isObs, vx.Bool), as))
	}
	kb, _ := json.Marshal(c)
	st.Case(string(kb), n.hasMulti() && n.size() >= 3)
	st.CaseIndex = append(st.CaseIndex, c)
	st.Count(fmt.Sprintf("err-size:%d", min(n.size(), 12)))
	st.Count("err-root:" + n.K + ":" + n.Via)
	if len(st.Samples) < 3 && c.Tag == "random" {
		st.Sample(map[string]any{"case": c, "tree": n.coq()}, 3)
	}
	if why != "" {
		st.Fail(map[string]any{"sig": "", "case": c, "why": why})
	}
}

const errsRule = "error trees built through every constructor of ierrors (Wrap/Wrapf/Errorf/WithMessage/WithMessagef/WithStack/Join/Chain, Wrapf and WithMessagef with an error argument, Errorf with 2-3 %w) and caller-defined Unwrap() error / Unwrap() []error types over 12 leaves (the sentinels TypedValue and the harness classify by, errors with the same text as a sentinel, 3 errors of a custom type): all 19 harness shapes x 12 leaves, then random trees of depth <= 4; ierrors.Is for each of the 12 leaves, ierrors.As for the custom type and ierrors.Unwrap are compared with the standard library and with a reference walk over the tree description, every node's Unwrap with the described children; distinct = distinct description; non-trivial = the tree has a multi-error node and at least 3 nodes"

func errsNil(st *vx.Stats) {
	// nil handling of the constructors (no tree to describe)
	var why string
	switch {
	case ierrors.Join() != nil || ierrors.Join(nil, nil) != nil:
		why = "ierrors.Join of no non-nil error is not nil"
	case ierrors.Chain() != nil || ierrors.Chain(nil, nil) != nil:
		why = "ierrors.Chain of no non-nil error is not nil"
	case ierrors.Chain(nil, errNoise, nil) != errNoise:
		why = "ierrors.Chain of one non-nil error is not that error"
	case ierrors.Is(nil, nil) != errors.Is(nil, nil) || ierrors.Is(nil, errNoise) || ierrors.Is(errNoise, nil):
		why = "ierrors.Is with a nil argument differs from errors.Is"
	case ierrors.Unwrap(nil) != nil:
		why = "ierrors.Unwrap(nil) is not nil"
	}
	if why != "" {
		st.Fail(map[string]any{"sig": "", "case": ecase{Kind: "err", Tag: "nil"}, "why": why})
	}
}

const errsHeader = "From Coq Require Import List Bool.\nFrom Verif.C06_Typed Require Import Model StoreModel ErrTree Corr.\nImport ListNotations.\n"

func errsCmd(r *vx.Rng, cf *vx.CasesFile, st *vx.Stats, n int, casePath string) {
	st.Rule = errsRule
	cf.Header = errsHeader
	if casePath != "" {
		b, err := os.ReadFile(casePath)
		if err != nil {
			vx.Die("%v", err)
		}
		var c ecase
		if err := json.Unmarshal(b, &c); err != nil {
			vx.Die("%v", err)
		}
		if c.Tag == "nil" {
			errsNil(st)
		} else {
			emitErr(cf, st, c)
		}
		fmt.Println(cf.Len(), "tree replayed; oracle failures:", len(st.OracleFailures))
		for _, f := range st.OracleFailures {
			fmt.Println(f)
		}
		return
	}
	errsNil(st)
	for sh := 0; sh < nShapes; sh++ {
		for id := 0; id < nLeaves; id++ {
			emitErr(cf, st, ecase{Kind: "err", Tag: "shape", Shape: sh, Leaf: id})
		}
	}
	for cf.Len() < n {
		emitErr(cf, st, ecase{Kind: "err", Tag: "random", Tree: genTree(r.Fork(), 1+r.Intn(4))})
	}
}
