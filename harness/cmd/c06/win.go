package main

import (
	"bytes"
	"encoding/json"
	"errors"
	"fmt"
	"os"
	"sync"
	"sync/atomic"
	"time"

	"github.com/iotaledger/hive.go/kvstore"
	"github.com/iotaledger/hive.go/kvstore/mapdb"

	"verif/harness/vx"
)

// win: scripted schedules.  A primary goroutine runs a short history on one TypedValue; a second TypedValue operation (the
// intruder) is started exactly at a store-call / codec-call / callback boundary of the primary's operation and is given a
// bounded time to run before the primary continues.  The model (and the theorems) treat every operation as one atomic step,
// which is what the code gets from doing all its store and codec calls between mutex.Lock and mutex.Unlock: then the
// intruder simply blocks until the primary's operation is over.  If any store/codec call of an operation happens outside
// its critical section, the intruder runs to completion inside that window.
// Judged by the property's own predicate, not by "did the intruder block":
//   (a) serialised: all results (values, error classes, callback arguments) and the final raw bytes equal those of the
//       sequential reference (raw key under the codec) with the intruder placed immediately before or immediately after the
//       primary operation it was started in;
//   (b) transparent afterwards: Get/Has on the object equal the raw key under the codec (cache == store), and equal a
//       fresh TypedValue over the same store;
//   (c) no hang (watchdog).
// For every generated (initial state, primary history) ALL boundaries x ALL intruders are tried.

// hookStore / hooked codecs call on() before and after every call (the boundaries).
type hookStore struct {
	kvstore.KVStore
	on func()
}

func (h *hookStore) Get(k kvstore.Key) (kvstore.Value, error) {
	h.on()
	v, err := h.KVStore.Get(k)
	h.on()
	return v, err
}
func (h *hookStore) Has(k kvstore.Key) (bool, error) {
	h.on()
	b, err := h.KVStore.Has(k)
	h.on()
	return b, err
}
func (h *hookStore) Set(k kvstore.Key, v kvstore.Value) error {
	h.on()
	err := h.KVStore.Set(k, v)
	h.on()
	return err
}
func (h *hookStore) Delete(k kvstore.Key) error {
	h.on()
	err := h.KVStore.Delete(k)
	h.on()
	return err
}

type wcase struct {
	Kind      string `json:"kind"` // "win"
	InitThere bool   `json:"init_there,omitempty"`
	InitRaw   []int  `json:"init_raw,omitempty"`
	Ops       []tvop `json:"ops"`      // the primary caller's history
	Intruder  tvop   `json:"intruder"` // the second caller's single operation
	At        int64  `json:"at"`       // index of the boundary (in call order of the primary) at which the intruder is started
	WaitMs    int    `json:"wait_ms"`
}

// what a caller observes of one operation
type wobs struct {
	Cls      string `json:"class,omitempty"`
	Val      uint16 `json:"val,omitempty"`
	HasVal   bool   `json:"has_val,omitempty"`
	B        bool   `json:"b,omitempty"`
	HasB     bool   `json:"has_b,omitempty"`
	CbCalled bool   `json:"cb_called,omitempty"`
	CbCur    uint16 `json:"cb_cur,omitempty"`
	CbEx     bool   `json:"cb_exists,omitempty"`
	Panicky  bool   `json:"panicked,omitempty"`
}

func (x wobs) String() string {
	s := "ok"
	switch {
	case x.Panicky:
		s = "panic"
	case x.Cls != "":
		s = x.Cls
	case x.HasVal:
		s = fmt.Sprintf("%d", x.Val)
	case x.HasB:
		s = fmt.Sprintf("%v", x.B)
	}
	if x.CbCalled {
		s += fmt.Sprintf("[cb(%d,%v)]", x.CbCur, x.CbEx)
	}
	return s
}

// refStep: the sequential reference = the raw key under the codec, no cache (independent of the Coq model).
func refStep(raw []byte, there bool, o tvop) ([]byte, bool, wobs) {
	cur, decOK := rawDecV(raw)
	switch o.K {
	case "get":
		switch {
		case !there:
			return raw, there, wobs{Cls: "ENotFound"}
		case !decOK:
			return raw, there, wobs{Cls: "EDecode"}
		}
		return raw, there, wobs{Val: cur, HasVal: true}
	case "has":
		return raw, there, wobs{B: there, HasB: true}
	case "set":
		b, ok := rawEncV(o.V)
		if !ok {
			return raw, there, wobs{Cls: "EEncode"}
		}
		return b, true, wobs{}
	case "del":
		return nil, false, wobs{}
	}
	if there && !decOK {
		return raw, there, wobs{Cls: "EDecode"}
	}
	if !there {
		cur = 0
	}
	x := wobs{CbCalled: true, CbCur: cur, CbEx: there}
	nv, e := o.apply(cur, there)
	switch {
	case e == nil:
		b, ok := rawEncV(nv)
		if !ok {
			x.Cls = "EEncode"
			return raw, there, x
		}
		x.Val, x.HasVal = nv, true
		return b, true, x
	case errors.Is(e, kvstore.ErrTypedValueNotChanged):
		x.Val, x.HasVal = cur, true
		return raw, there, x
	}
	x.Cls = "ECompute"
	return raw, there, x
}

// refRun: primary ops with the intruder inserted before position k; returns observations (primary..., intruder) + final raw.
func refRun(c wcase, k int) ([]wobs, wobs, []byte, bool) {
	raw, there := []byte(nil), c.InitThere
	if there {
		raw = toBytes(c.InitRaw)
	}
	var po []wobs
	var io wobs
	for i := 0; i <= len(c.Ops); i++ {
		if i == k {
			raw, there, io = refStep(raw, there, c.Intruder)
		}
		if i < len(c.Ops) {
			var x wobs
			raw, there, x = refStep(raw, there, c.Ops[i])
			po = append(po, x)
		}
	}
	return po, io, raw, there
}

func doOp(tv *kvstore.TypedValue[uint16], o tvop, on func()) (x wobs) {
	defer func() {
		if r := recover(); r != nil {
			x.Panicky = true
		}
	}()
	switch o.K {
	case "get":
		v, err := tv.Get()
		x.Cls, x.Val, x.HasVal = class(err), v, err == nil
	case "has":
		b, err := tv.Has()
		x.Cls, x.B, x.HasB = class(err), b, err == nil
	case "set":
		x.Cls = class(tv.Set(o.V))
	case "del":
		x.Cls = class(tv.Delete())
	case "cmp":
		v, err := tv.Compute(func(cur uint16, ex bool) (uint16, error) {
			x.CbCalled, x.CbCur, x.CbEx = true, cur, ex
			on() // the callback is a boundary too
			return o.apply(cur, ex)
		})
		x.Cls, x.Val, x.HasVal = class(err), v, err == nil
	}
	if x.Cls != "" {
		x.Val, x.HasVal, x.B, x.HasB = 0, false, false, false
	}
	return x
}

type wresult struct {
	boundaries int64
	inOp       int  // primary operation during which the intruder was started (-1: never started)
	ranInside  bool // the intruder completed within the bounded wait, i.e. inside the primary's operation
	why        string
}

// winRun executes one schedule (c.At < 0: dry run, only counts the boundaries).
func winRun(c wcase) wresult {
	resc := make(chan wresult, 1)
	go func() { resc <- winRun1(c) }()
	select {
	case r := <-resc:
		return r
	case <-time.After(30 * time.Second):
		return wresult{inOp: -1, why: "hang: the schedule did not finish within 30 s (a lock is not released, or two callers wait for each other)"}
	}
}

func winRun1(c wcase) wresult {
	inner := mapdb.NewMapDB()
	if c.InitThere {
		_ = inner.Set(tvKey, toBytes(c.InitRaw))
	}
	var calls atomic.Int64
	var fired atomic.Bool
	var curOp atomic.Int64
	var wg sync.WaitGroup
	res := wresult{inOp: -1}
	var iobs wobs
	var tv *kvstore.TypedValue[uint16]
	noop := func() {}
	on := func() {
		if fired.Load() {
			return
		}
		if calls.Add(1)-1 != c.At {
			return
		}
		fired.Store(true)
		res.inOp = int(curOp.Load())
		done := make(chan struct{})
		wg.Add(1)
		go func() {
			defer wg.Done()
			iobs = doOp(tv, c.Intruder, noop)
			close(done)
		}()
		select {
		case <-done:
			res.ranInside = true
		case <-time.After(time.Duration(c.WaitMs) * time.Millisecond):
		}
	}
	ev := func(v uint16) ([]byte, error) {
		on()
		defer on()
		if b, ok := rawEncV(v); ok {
			return b, nil
		}
		return nil, errUnencodable
	}
	dv := func(b []byte) (uint16, int, error) {
		on()
		defer on()
		if v, ok := rawDecV(b); ok {
			return v, 2, nil
		}
		return 0, 0, errMalformed
	}
	tv = kvstore.NewTypedValue[uint16](&hookStore{KVStore: inner, on: on}, tvKey, ev, dv)
	pobs := make([]wobs, 0, len(c.Ops))
	for i, o := range c.Ops {
		curOp.Store(int64(i))
		pobs = append(pobs, doOp(tv, o, on))
		wg.Wait() // the intruder is over before the primary's next operation starts
	}
	fired.Store(true)
	res.boundaries = calls.Load()
	if c.At < 0 || res.inOp < 0 {
		return res
	}
	raw, there := readRaw(inner)

	// (a) serialised: intruder immediately before or immediately after the operation it was started in
	var tried []string
	okSerial := false
	for _, k := range []int{res.inOp + 1, res.inOp} {
		po, io, fraw, fthere := refRun(c, k)
		match := io == iobs && fthere == there && bytes.Equal(fraw, raw)
		for i := range po {
			match = match && po[i] == pobs[i]
		}
		if match {
			okSerial = true
			break
		}
		tried = append(tried, fmt.Sprintf("intruder before op %d: primary %v intruder %v final raw %v", k, po, io, coqOptBytes(fraw, fthere)))
	}
	if !okSerial {
		res.why = fmt.Sprintf("not serialised: observed primary %v intruder %v final raw %v (intruder started in primary op %d, completed inside it=%v); sequential reference: %v",
			pobs, iobs, coqOptBytes(raw, there), res.inOp, res.ranInside, tried)
		return res
	}
	// (b) transparent afterwards: every read path of the object equals the raw key under the codec (= a fresh view)
	if w := viewCoherent(tv, inner); w != "" {
		res.why = fmt.Sprintf("cache differs from the store after primary %v intruder %v (intruder started in primary op %d, completed inside it=%v): %s",
			pobs, iobs, res.inOp, res.ranInside, w)
	}
	return res
}

// viewCoherent compares what the long-lived object answers (Has first: a Get on a stale presence flag would repair it;
// then Get; then what a Compute callback is shown) with what the sequential reference and a fresh TypedValue over the same
// store answer.  The raw key is not changed.
func viewCoherent(tv *kvstore.TypedValue[uint16], inner kvstore.KVStore) string {
	raw, there := readRaw(inner)
	pe, pd := plainCodecs()
	fresh := kvstore.NewTypedValue[uint16](inner, tvKey, pe, pd)
	noop := func() {}
	for _, o := range []tvop{{K: "has"}, {K: "get"}, {K: "cmp", F: "keep"}} {
		got := doOp(tv, o, noop)
		_, _, want := refStep(raw, there, o)
		if got != want {
			return fmt.Sprintf("%s on the object gives %v, the raw key %s gives %v", o.coq(), got, coqOptBytes(raw, there), want)
		}
		if f := doOp(fresh, o, noop); got != f {
			return fmt.Sprintf("%s on the object gives %v, on a fresh TypedValue over the same store %v", o.coq(), got, f)
		}
	}
	return ""
}

var winIntruders = []tvop{
	{K: "set", V: 4242}, {K: "del"}, {K: "cmp", F: "incr"}, {K: "cmp", F: "const", V: 77},
	{K: "cmp", F: "initkeep", V: 9}, {K: "get"}, {K: "has"},
}

func winDirected() []wcase {
	enc := func(v uint16) []int { b, _ := rawEncV(v); return toInts(b) }
	return []wcase{
		{Ops: []tvop{{K: "set", V: 1}}},
		{InitThere: true, InitRaw: enc(5), Ops: []tvop{{K: "set", V: 1}}},
		{InitThere: true, InitRaw: enc(5), Ops: []tvop{{K: "cmp", F: "incr"}}},
		{InitThere: true, InitRaw: enc(5), Ops: []tvop{{K: "get"}}},
		{InitThere: true, InitRaw: enc(5), Ops: []tvop{{K: "has"}}},
		{InitThere: true, InitRaw: enc(5), Ops: []tvop{{K: "del"}}},
		{Ops: []tvop{{K: "get"}}},
		{Ops: []tvop{{K: "cmp", F: "initkeep", V: 3}}},
		{InitThere: true, InitRaw: enc(5), Ops: []tvop{{K: "has"}, {K: "cmp", F: "incr"}}},
		{InitThere: true, InitRaw: enc(5), Ops: []tvop{{K: "get"}, {K: "cmp", F: "incr"}, {K: "set", V: 8}}},
	}
}

func genWin(r *vx.Rng) wcase {
	c := wcase{}
	switch k := r.Intn(10); {
	case k < 4:
	case k < 9:
		b, _ := rawEncV(vx.Pick(r, values[:8]))
		c.InitThere, c.InitRaw = true, toInts(b)
	default:
		c.InitThere, c.InitRaw = true, vx.Pick(r, [][]int{{7}, {0, 5, 9}})
	}
	for n := 1 + r.Intn(3); len(c.Ops) < n; {
		switch k := r.Intn(100); {
		case k < 15:
			c.Ops = append(c.Ops, tvop{K: "get"})
		case k < 25:
			c.Ops = append(c.Ops, tvop{K: "has"})
		case k < 50:
			c.Ops = append(c.Ops, tvop{K: "set", V: vx.Pick(r, values)})
		case k < 62:
			c.Ops = append(c.Ops, tvop{K: "del"})
		default:
			f := vx.Pick(r, []string{"const", "incr", "incr", "keep", "fail", "initkeep", "failex"})
			o := tvop{K: "cmp", F: f}
			if f == "const" || f == "initkeep" {
				o.V = vx.Pick(r, values)
			}
			c.Ops = append(c.Ops, o)
		}
	}
	return c
}

func isWrite(o tvop) bool { return o.K == "set" || o.K == "del" || o.K == "cmp" }

const winRule = "scripted schedules on one TypedValue[uint16] over mapdb: for each (initial raw key, primary history of 1-3 operations) a second operation (Set/Delete/Compute x3/Get/Has) is started at EVERY store-call, codec-call and callback boundary of the primary's operations with a bounded wait (it blocks on the mutex when all store access of an operation is inside its critical section); judged by: results + final raw bytes equal the sequential reference with the second operation immediately before or after the primary operation it was started in, afterwards Get/Has equal the raw key and a fresh TypedValue; every schedule under a watchdog; distinct = distinct (initial state, history, intruder, boundary); non-trivial = primary operation hit or intruder is a write"

// win runs the directed lists and `lists` random ones: every boundary x every intruder, `workers` schedules at a time
// (a schedule mostly sleeps in the bounded wait).
func win(r *vx.Rng, st *vx.Stats, lists, waitMs, workers int) {
	bases := winDirected()
	for i := 0; i < lists; i++ {
		bases = append(bases, genWin(r.Fork()))
	}
	var all []wcase
	for _, b := range bases {
		b.Kind, b.At, b.WaitMs = "win", -1, waitMs
		dry := winRun(b)
		if dry.why != "" {
			st.Fail(map[string]any{"sig": "", "case": b, "why": dry.why})
			return
		}
		st.Count("win:lists")
		for at := int64(0); at < dry.boundaries; at++ {
			for _, in := range winIntruders {
				c := b
				c.At, c.Intruder = at, in
				all = append(all, c)
			}
		}
	}
	results := make([]wresult, len(all))
	var next atomic.Int64
	var wg sync.WaitGroup
	for w := 0; w < workers; w++ {
		wg.Add(1)
		go func() {
			defer wg.Done()
			for {
				i := int(next.Add(1) - 1)
				if i >= len(all) {
					return
				}
				results[i] = winRun(all[i])
			}
		}()
	}
	wg.Wait()
	for i, c := range all {
		res := results[i]
		kb, _ := json.Marshal(c)
		nontrivial := isWrite(c.Intruder) || (res.inOp >= 0 && isWrite(c.Ops[res.inOp]))
		st.Case(string(kb), nontrivial)
		st.Count("win:intruder:" + c.Intruder.K)
		if res.inOp >= 0 {
			st.Count("win:primary:" + c.Ops[res.inOp].K)
		} else {
			st.Count("win:boundary-not-reached")
		}
		if res.ranInside {
			st.Count("win:intruder-completed-inside-the-primary-operation")
		} else {
			st.Count("win:intruder-blocked-until-the-primary-operation-was-over")
		}
		if res.why != "" && len(st.OracleFailures) < 10 {
			st.Fail(map[string]any{"sig": "", "case": c, "why": res.why})
		}
	}
}

// winReplay re-runs one schedule from a replay file (5 times: the schedule is scripted, only the bounded wait is timing).
func winReplay(st *vx.Stats, path string) {
	b, err := os.ReadFile(path)
	if err != nil {
		vx.Die("%v", err)
	}
	var c wcase
	if err := json.Unmarshal(b, &c); err != nil {
		vx.Die("%v", err)
	}
	if c.WaitMs <= 0 {
		c.WaitMs = 20
	}
	for i := 0; i < 5; i++ {
		res := winRun(c)
		st.Case(fmt.Sprintf("%s#%d", b, i), true)
		fmt.Printf("run %d: intruder started in primary op %d, completed inside it=%v: %s\n", i, res.inOp, res.ranInside, map[bool]string{true: "ok", false: res.why}[res.why == ""])
		if res.why != "" {
			st.Fail(map[string]any{"sig": "", "case": c, "why": res.why})
			return
		}
	}
}
