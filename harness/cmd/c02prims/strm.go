package main

import (
	"bytes"
	"fmt"
	"io"
	"math"
	"math/big"
	"testing/iotest"
	"time"

	"github.com/iotaledger/hive.go/serializer/v2"
	"github.com/iotaledger/hive.go/serializer/v2/stream"
	"github.com/iotaledger/hive.go/serializer/v2/typeutils"

	"verif/harness/vx"
)

// ---------- readers ----------

type evt struct {
	kind byte // 'g' give n, 'h' half, 'f' fault
	n    int
}

func evsT(evs []evt) string {
	if len(evs) == 0 {
		return "([]:list ev)"
	}
	return vx.ListOf(evs, func(e evt) string {
		switch e.kind {
		case 'g':
			return fmt.Sprintf("Give %d", e.n)
		case 'h':
			return "Half"
		}
		return "Fault"
	})
}

// chunkReader is the model's reader: every Read with a non-empty buffer pops one event.
type chunkReader struct {
	data []byte
	pos  int
	evs  []evt
}

func (c *chunkReader) Read(p []byte) (int, error) {
	if len(p) == 0 {
		return 0, nil
	}
	var e *evt
	if len(c.evs) > 0 {
		e = &c.evs[0]
		c.evs = c.evs[1:]
	}
	if e != nil && e.kind == 'f' {
		return 0, errFault
	}
	if c.pos >= len(c.data) {
		return 0, io.EOF
	}
	k := len(p)
	if e != nil {
		if e.kind == 'g' {
			k = min(k, e.n)
		} else {
			k = (len(p) + 1) / 2
		}
	}
	k = min(k, len(c.data)-c.pos)
	copy(p, c.data[c.pos:c.pos+k])
	c.pos += k
	return k, nil
}

func (c *chunkReader) Seek(offset int64, whence int) (int64, error) {
	np := int(offset)
	switch whence {
	case io.SeekCurrent:
		np += c.pos
	case io.SeekEnd:
		np += len(c.data)
	}
	if np < 0 {
		return 0, fmt.Errorf("negative position")
	}
	c.pos = np
	return int64(np), nil
}

type countReader struct {
	r io.Reader
	n int
}

func (c *countReader) Read(p []byte) (int, error) {
	n, err := c.r.Read(p)
	c.n += n
	return n, err
}

type faultOnce struct{ error }

var readerKinds = []string{"plain", "onebyte", "half", "dataerr", "timeout", "custom"}

// bigScript is the event script of the reader kind "bigscript" (directed cases with ~2^20 bytes of data, where a
// per-byte script would be a huge term): tiny, half, large, larger-than-any-buffer and odd chunks, then bytes.Reader.
var bigScript = []evt{{kind: 'g', n: 1}, {kind: 'h'}, {kind: 'g', n: 524288}, {kind: 'g', n: 1 << 40}, {kind: 'h'}, {kind: 'g', n: 7}, {kind: 'g', n: 4099}}

// mkReader returns the reader, the model's event script (a Coq term) and a function giving the consumed count.
func mkReader(kind string, data []byte, r *vx.Rng) (io.Reader, string, func() int, io.ReadSeeker) {
	d := exact(data)
	switch kind {
	case "plain":
		br := stream.NewByteReader(d)
		return br, "([]:list ev)", br.BytesRead, br
	case "onebyte":
		cr := &countReader{r: iotest.OneByteReader(bytes.NewReader(d))}
		return cr, fmt.Sprintf("(repeat (Give 1) %s)", natT(len(d)+8)), func() int { return cr.n }, nil
	case "half":
		cr := &countReader{r: iotest.HalfReader(bytes.NewReader(d))}
		return cr, fmt.Sprintf("(repeat Half %s)", natT(len(d)+8)), func() int { return cr.n }, nil
	case "dataerr":
		// returns the final data together with io.EOF and re-chunks at 1024 bytes; io.ReadFull absorbs both
		// (chunk independence is a theorem), so the model is evaluated with the empty script
		cr := &countReader{r: iotest.DataErrReader(bytes.NewReader(d))}
		return cr, "([]:list ev)", func() int { return cr.n }, nil
	case "timeout":
		// second Read fails with iotest.ErrTimeout, later ones succeed
		cr := &countReader{r: &mapErr{iotest.TimeoutReader(bytes.NewReader(d))}}
		return cr, "[Give 1099511627776; Fault]", func() int { return cr.n }, nil
	}
	var evs []evt
	if kind == "chunks64k" { // the one-byte reader's big brother: every Read hands out at most 65521 bytes
		n := len(d)/65521 + 8
		for i := 0; i < n; i++ {
			evs = append(evs, evt{kind: 'g', n: 65521})
		}
		c := &chunkReader{data: d, evs: evs}
		return c, fmt.Sprintf("(repeat (Give 65521) %s)", natT(n)), func() int { return c.pos }, c
	}
	if kind == "bigscript" {
		c := &chunkReader{data: d, evs: append([]evt(nil), bigScript...)}
		return c, evsT(bigScript), func() int { return c.pos }, c
	}
	n := r.Intn(9)
	for i := 0; i < n; i++ {
		switch {
		case r.Chance(1, 12):
			evs = append(evs, evt{kind: 'f'})
		case r.Chance(1, 5):
			evs = append(evs, evt{kind: 'h'})
		case r.Chance(1, 8):
			evs = append(evs, evt{kind: 'g', n: 4000 + r.Intn(200)})
		default:
			evs = append(evs, evt{kind: 'g', n: 1 + r.Intn(5)})
		}
	}
	if r.Chance(1, 4) && len(d) <= 16384 {
		evs = evs[:0]
		for i := 0; i < len(d)+4; i++ {
			evs = append(evs, evt{kind: 'g', n: 1 + r.Intn(3)})
		}
	}
	c := &chunkReader{data: d, evs: append([]evt(nil), evs...)}
	return c, evsT(evs), func() int { return c.pos }, c
}

// mapErr turns iotest.ErrTimeout into the harness's fault sentinel.
type mapErr struct{ r io.Reader }

func (m *mapErr) Read(p []byte) (int, error) {
	n, err := m.r.Read(p)
	if err == iotest.ErrTimeout {
		err = errFault
	}
	return n, err
}

// ---------- stream read ops ----------

type rop struct {
	kind string
	term string
	run  func(r io.Reader, rs io.ReadSeeker) (func() string, error) // value term (after measurement), error
	seek bool                                                       // needs a ReadSeeker
	zero bool                                                       // collection of zero-size elements: never inflate
	pfx  int                                                        // width of the leading prefix
	// what the call claims to read with one ReadBytes: a fixed length argument (fixed) or the value of the prefix (sized)
	fixed int64
	sized bool
}

// claimed is the number of bytes the length argument / the length prefix in data announces for one ReadBytes call
// (0 when there is none, when it is negative or when the prefix does not fit int: nothing may be allocated then).
func (o rop) claimed(data []byte) uint64 {
	switch {
	case o.sized && len(data) >= o.pfx:
		if v := prefixValue(data[:o.pfx]); v <= math.MaxInt64 {
			return v
		}
	case o.fixed > 0:
		return uint64(o.fixed)
	}
	return 0
}

func prefixValue(p []byte) uint64 {
	var v uint64
	for i := len(p) - 1; i >= 0; i-- {
		v = v<<8 | uint64(p[i])
	}
	return v
}

var tkNames = []string{"(TNum U8)", "(TNum U16)", "(TNum U32)", "(TNum U64)", "(TNum I8)", "(TNum I16)", "(TNum I32)", "(TNum I64)", "TBool", "(TArr 32)", "(TArr 36)", "(TArr 38)"}
var tkSizes = []int{1, 2, 4, 8, 1, 2, 4, 8, 1, 32, 36, 38}

func readT(t int, r io.Reader) (func() string, error) {
	num := func(v uint64) func() string { return func() string { return joinT("SVNum", vx.ZU(v)) } }
	snum := func(v int64) func() string { return func() string { return joinT("SVNum", vx.Z(v)) } }
	switch t {
	case 0:
		v, err := stream.Read[uint8](r)
		return num(uint64(v)), err
	case 1:
		v, err := stream.Read[uint16](r)
		return num(uint64(v)), err
	case 2:
		v, err := stream.Read[uint32](r)
		return num(uint64(v)), err
	case 3:
		v, err := stream.Read[uint64](r)
		return num(v), err
	case 4:
		v, err := stream.Read[int8](r)
		return snum(int64(v)), err
	case 5:
		v, err := stream.Read[int16](r)
		return snum(int64(v)), err
	case 6:
		v, err := stream.Read[int32](r)
		return snum(int64(v)), err
	case 7:
		v, err := stream.Read[int64](r)
		return snum(v), err
	case 8:
		v, err := stream.Read[bool](r)
		return func() string { return joinT("SVBool", vx.Bool(v)) }, err
	case 9:
		v, err := stream.Read[[32]byte](r)
		return func() string { return joinT("SVBytes", bytesT(v[:])) }, err
	case 10:
		v, err := stream.Read[[36]byte](r)
		return func() string { return joinT("SVBytes", bytesT(v[:])) }, err
	}
	v, err := stream.Read[[38]byte](r)
	return func() string { return joinT("SVBytes", bytesT(v[:])) }, err
}

type cbKind struct {
	kind int // 0 u64, 1 arr32, 2 take k, 3 fail
	k    int
}

func (c cbKind) term() string {
	switch c.kind {
	case 0:
		return "CbU64"
	case 1:
		return "CbArr32"
	case 2:
		return fmt.Sprintf("(CbTake %d)", c.k)
	}
	return "CbFail"
}

type objVal struct{ t string }

func (c cbKind) fn() func(b []byte) (objVal, int, error) {
	return func(b []byte) (objVal, int, error) {
		switch c.kind {
		case 0:
			v, n, err := typeutils.Uint64FromBytes(b)
			return objVal{joinT("SVNum", vx.ZU(v))}, n, err
		case 1:
			v, n, err := typeutils.ByteArray32FromBytes(b)
			return objVal{joinT("SVBytes", bytesT(v[:]))}, n, err
		case 2:
			if len(b) < c.k {
				return objVal{}, 0, errItem
			}
			return objVal{joinT("SVBytes", bytesT(b[:c.k]))}, c.k, nil
		}
		return objVal{}, 0, errItem
	}
}

func ropT(t int) rop {
	return rop{kind: "T" + tkNames[t], term: joinT("RT", tkNames[t]),
		run: func(r io.Reader, _ io.ReadSeeker) (func() string, error) { return readT(t, r) }}
}

func ropBytes(n int64) rop {
	return rop{kind: "bytes", term: joinT("RBytes", vx.Z(n)), fixed: n,
		run: func(r io.Reader, _ io.ReadSeeker) (func() string, error) {
			b, err := stream.ReadBytes(r, int(n))
			return func() string { return joinT("SVBytes", bytesT(b)) }, err
		}}
}

func ropBytesSize(l serializer.SeriLengthPrefixType) rop {
	return rop{kind: "bytessize" + lptT(l), term: joinT("RBytesSize", lptT(l)), pfx: lptSize(l), sized: true,
		run: func(r io.Reader, _ io.ReadSeeker) (func() string, error) {
			b, err := stream.ReadBytesWithSize(r, l)
			return func() string { return joinT("SVBytes", bytesT(b)) }, err
		}}
}

func ropObject(n int64, c cbKind) rop {
	return rop{kind: "object" + c.term(), term: joinT("RObject", vx.Z(n), c.term()), fixed: n,
		run: func(r io.Reader, _ io.ReadSeeker) (func() string, error) {
			v, err := stream.ReadObject(r, int(n), c.fn())
			return func() string { return v.t }, err
		}}
}

func ropObjectSize(l serializer.SeriLengthPrefixType, c cbKind) rop {
	return rop{kind: "objectsize" + lptT(l) + c.term(), term: joinT("RObjectSize", lptT(l), c.term()), pfx: lptSize(l), sized: true,
		run: func(r io.Reader, _ io.ReadSeeker) (func() string, error) {
			v, err := stream.ReadObjectWithSize(r, l, c.fn())
			return func() string { return v.t }, err
		}}
}

var collIters int

func ropCollection(l serializer.SeriLengthPrefixType, k int) rop {
	return rop{kind: "collection" + lptT(l), term: joinT("RCollection", lptT(l), vx.Nat(k)), pfx: lptSize(l), zero: k == 0,
		run: func(r io.Reader, _ io.ReadSeeker) (func() string, error) {
			var items [][]byte
			err := stream.ReadCollection(r, l, func(i int) error {
				collIters++
				b, err := stream.ReadBytes(r, k)
				if err != nil {
					return err
				}
				items = append(items, b)
				return nil
			})
			return func() string { return joinT("SVList", listOfBytes(items)) }, err
		}}
}

func ropPeek(l serializer.SeriLengthPrefixType) rop {
	return rop{kind: "peek" + lptT(l), term: joinT("RPeek", lptT(l)), seek: true, pfx: lptSize(l),
		run: func(_ io.Reader, rs io.ReadSeeker) (func() string, error) {
			v, err := stream.PeekSize(rs, l)
			return func() string { return joinT("SVNum", vx.Z(int64(v))) }, err
		}}
}

type readObs struct {
	res      string // Coq res sval
	ok       bool
	val      string
	err      error
	panicked bool
	pv       any
	consumed int
	alloc    uint64
	iters    int
	hung     bool // the call did not return within readDeadline (nothing else of the observation is valid)
}

// readDeadline: a stream read helper that has not returned after this long is reported as a hang (a loop around a reader
// that makes no progress); the largest legitimate case (3 MiB through 65521-byte chunks) takes milliseconds.
const readDeadline = 20 * time.Second

func runRead(o rop, kind string, data []byte, r *vx.Rng) (readObs, string) {
	rd, evs, consumed, rs := mkReader(kind, data, r)
	var ob readObs
	var get func() string
	collIters = 0
	done := make(chan struct{})
	go func() {
		defer close(done)
		ob.alloc, ob.panicked, ob.pv = measured(func() { get, ob.err = o.run(rd, rs) })
	}()
	select {
	case <-done:
	case <-time.After(readDeadline):
		return readObs{hung: true, res: "Panic"}, evs // the goroutine keeps spinning: the caller reports and exits
	}
	ob.consumed = consumed()
	ob.iters = collIters
	switch {
	case ob.panicked:
		ob.res = "Panic"
	case ob.err != nil:
		ob.res = joinT("Err", classify(ob.err))
	default:
		ob.ok, ob.val = true, get()
		ob.res = joinT("Ok", ob.val)
	}
	return ob, evs
}

func readCaseT(data []byte, evs string, o rop, ob readObs) string {
	return joinT("CRead", bytesT(data), evs, o.term, ob.res, natT(ob.consumed), vx.N(ob.alloc))
}

// ---------- stream write ops ----------

type wop struct {
	kind string
	term string
	run  func(w *stream.ByteBuffer) error
	read rop    // the matching read helper
	want string // the sval the read must give back ("" = no pair)
}

func writeT(t int, v *big.Int, arr []byte, w io.Writer) error {
	u, i := v.Uint64(), v.Int64()
	switch t {
	case 0:
		return stream.Write(w, uint8(u))
	case 1:
		return stream.Write(w, uint16(u))
	case 2:
		return stream.Write(w, uint32(u))
	case 3:
		return stream.Write(w, u)
	case 4:
		return stream.Write(w, int8(i))
	case 5:
		return stream.Write(w, int16(i))
	case 6:
		return stream.Write(w, int32(i))
	case 7:
		return stream.Write(w, i)
	case 8:
		return stream.Write(w, u != 0)
	case 9:
		return stream.Write(w, [32]byte(arr))
	case 10:
		return stream.Write(w, [36]byte(arr))
	}
	return stream.Write(w, [38]byte(arr))
}

// genWopT: stream.Write[T] / stream.Read[T] for the t-th allowed type
func genWopT(r *vx.Rng, t int) wop {
	var v *big.Int
	var arr []byte
	var sv string
	switch {
	case t < 8:
		v = rnum(r, t)
		sv = joinT("SVNum", zbig(v))
	case t == 8:
		v = big.NewInt(int64(r.Intn(2)))
		sv = joinT("SVBool", vx.Bool(v.Sign() != 0))
	default:
		v = big.NewInt(0)
		arr = rbytes(r, tkSizes[t])
		sv = joinT("SVBytes", bytesT(arr))
	}
	return wop{kind: "T", term: joinT("WT", tkNames[t], sv), want: sv, read: ropT(t),
		run: func(w *stream.ByteBuffer) error { return writeT(t, v, arr, w) }}
}

func genWop(r *vx.Rng) wop {
	l := vx.Pick(r, goodLpts)
	switch r.Intn(9) {
	case 0, 1:
		return genWopT(r, r.Intn(12))
	case 2:
		n := lenPick(r)
		data := rbytes(r, n)
		return wop{kind: "bytes", term: joinT("WBytes", bytesT(data)), want: joinT("SVBytes", bytesT(data)), read: ropBytes(int64(n)),
			run: func(w *stream.ByteBuffer) error { return stream.WriteBytes(w, data) }}
	case 3, 4:
		n := lenPick(r)
		data := rbytes(r, n)
		w := wop{kind: "bytessize", term: joinT("WBytesSize", lptT(l), bytesT(data)), want: joinT("SVBytes", bytesT(data)), read: ropBytesSize(l),
			run: func(w *stream.ByteBuffer) error { return stream.WriteBytesWithSize(w, data, l) }}
		return w
	case 5:
		if r.Bool() {
			v := rnum(r, 3)
			return wop{kind: "objectu64", term: joinT("WObject", joinT("WcbU64", zbig(v))), want: joinT("SVNum", zbig(v)), read: ropObject(8, cbKind{kind: 0}),
				run: func(w *stream.ByteBuffer) error { return stream.WriteObject(w, v.Uint64(), typeutils.Uint64ToBytes) }}
		}
		arr := rbytes(r, 32)
		return wop{kind: "objectarr32", term: joinT("WObject", joinT("WcbArr32", bytesT(arr))), want: joinT("SVBytes", bytesT(arr)), read: ropObject(32, cbKind{kind: 1}),
			run: func(w *stream.ByteBuffer) error {
				return stream.WriteObject(w, [32]byte(arr), typeutils.ByteArray32ToBytes)
			}}
	case 6:
		switch r.Intn(4) {
		case 0:
			v := rnum(r, 3)
			return wop{kind: "objectsizeu64", term: joinT("WObjectSize", lptT(l), joinT("WcbU64", zbig(v))), want: joinT("SVNum", zbig(v)), read: ropObjectSize(l, cbKind{kind: 0}),
				run: func(w *stream.ByteBuffer) error {
					return stream.WriteObjectWithSize(w, v.Uint64(), l, typeutils.Uint64ToBytes)
				}}
		case 1:
			arr := rbytes(r, 32)
			return wop{kind: "objectsizearr32", term: joinT("WObjectSize", lptT(l), joinT("WcbArr32", bytesT(arr))), want: joinT("SVBytes", bytesT(arr)), read: ropObjectSize(l, cbKind{kind: 1}),
				run: func(w *stream.ByteBuffer) error {
					return stream.WriteObjectWithSize(w, [32]byte(arr), l, typeutils.ByteArray32ToBytes)
				}}
		case 2:
			return wop{kind: "objectfail", term: joinT("WObjectSize", lptT(l), "WcbFail"),
				run: func(w *stream.ByteBuffer) error {
					return stream.WriteObjectWithSize(w, 0, l, func(int) ([]byte, error) { return nil, errItem })
				}}
		}
		n := lenPick(r)
		data := rbytes(r, n)
		return wop{kind: "objectsizeraw", term: joinT("WObjectSize", lptT(l), joinT("WcbRaw", bytesT(data))), want: joinT("SVBytes", bytesT(data)), read: ropObjectSize(l, cbKind{kind: 2, k: n}),
			run: func(w *stream.ByteBuffer) error {
				return stream.WriteObjectWithSize(w, data, l, func(b []byte) ([]byte, error) { return b, nil })
			}}
	default:
		k := r.Intn(4)
		count := r.Intn(6)
		if r.Chance(1, 10) {
			count = 255 + r.Intn(3)
		}
		var elems [][]byte
		for i := 0; i < count; i++ {
			elems = append(elems, rbytes(r, k))
		}
		reported := count
		if k > 0 && r.Chance(1, 8) { // never with zero-size elements (known finding D02d: the reader would iterate the reported count)
			reported = count + 1 + r.Intn(70000) // a callback that misreports its count
		}
		w := wop{kind: "collection", term: joinT("WCollection", lptT(l), listOfBytes(elems), vx.Z(int64(reported))), read: ropCollection(l, k),
			run: func(w *stream.ByteBuffer) error {
				return stream.WriteCollection(w, l, func() (int, error) {
					for _, e := range elems {
						if err := stream.WriteBytes(w, e); err != nil {
							return 0, err
						}
					}
					return reported, nil
				})
			}}
		if reported == count {
			w.want = joinT("SVList", listOfBytes(elems))
		}
		return w
	}
}

// runWrite writes pre, then the op, then (unless the op is to be the LAST write of the stream) a sentinel byte into a
// fresh ByteBuffer, and returns Bytes().
func runWrite(pre []byte, o wop, sentinel bool) (out []byte, err error, panicked bool) {
	_, panicked, _ = measured(func() {
		w := stream.NewByteBuffer()
		if _, err = w.Write(pre); err != nil {
			return
		}
		if err = o.run(w); err != nil {
			return
		}
		if sentinel {
			if _, err = w.Write([]byte{0xEE}); err != nil { // sentinel: makes the final write position observable
				return
			}
		}
		b, _ := w.Bytes()
		out = exact(b)
	})
	return
}
