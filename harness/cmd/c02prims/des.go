package main

import (
	"fmt"
	"math"
	"math/big"
	"time"

	"github.com/iotaledger/hive.go/serializer/v2"

	"verif/harness/vx"
)

func idErr(err error) error { return err }

// elem is one step of a Serializer/Deserializer program.
type elem struct {
	kind   string
	sops   []string                       // Coq sop terms producing this step's bytes
	ser    func(s *serializer.Serializer) // the same on the real Serializer
	dop    string                         // Coq dop term
	des    func(d *serializer.Deserializer) func(before, after error) string
	want   string // expected dout when the stream is valid ("" = not a round-trip pair)
	prefix []int  // widths of a length/count prefix at the start of this step's bytes (for inflation), 0 if none
	zeroSz bool   // sequence of zero-size items (D02d pattern): never inflate
}

type desObs struct {
	outs     []string
	off      int
	err      error
	panicked bool
	pv       any
	alloc    uint64
	seqIters int
}

var seqIterCount int // iterations of item callbacks in the current run

func runDes(input []byte, prog []elem) desObs {
	var o desObs
	in := exact(input)
	getters := make([]func() string, 0, len(prog))
	seqIterCount = 0
	d := serializer.NewDeserializer(in)
	o.alloc, o.panicked, o.pv = measured(func() {
		for _, e := range prog {
			_, before := d.Done()
			g := e.des(d)
			_, after := d.Done()
			getters = append(getters, func() string { return g(before, after) })
		}
	})
	for _, g := range getters {
		o.outs = append(o.outs, g())
	}
	o.off, o.err = d.Done()
	o.seqIters = seqIterCount
	return o
}

func plain(val func() string) func(before, after error) string {
	return func(before, after error) string {
		if before != nil || after != nil {
			return "ONone"
		}
		return val()
	}
}

func rbytes(r *vx.Rng, n int) []byte {
	b := make([]byte, n)
	small := r.Chance(1, 2)
	for i := range b {
		if small {
			b[i] = byte(r.Intn(3))
		} else {
			b[i] = byte(r.U64())
		}
	}
	return b
}

// boundary-biased value of number kind k, as big.Int (two's complement range of the kind)
func rnum(r *vx.Rng, k int) *big.Int {
	bits := uint(8 * nkSize(k))
	signed := k >= 4
	lo, hi := big.NewInt(0), new(big.Int).Lsh(big.NewInt(1), bits)
	if signed {
		lo = new(big.Int).Neg(new(big.Int).Lsh(big.NewInt(1), bits-1))
		hi = new(big.Int).Lsh(big.NewInt(1), bits-1)
	}
	hi.Sub(hi, big.NewInt(1))
	switch r.Intn(8) {
	case 0:
		return lo
	case 1:
		return hi
	case 2:
		return big.NewInt(0)
	case 3:
		if signed {
			return big.NewInt(-1)
		}
		return big.NewInt(1)
	case 4:
		if !signed && bits > 8 {
			return big.NewInt(int64(r.Intn(300)))
		}
		return big.NewInt(int64(r.Intn(100)))
	}
	span := new(big.Int).Sub(hi, lo)
	span.Add(span, big.NewInt(1))
	x := new(big.Int).SetUint64(r.U64())
	x.Mod(x, span)
	return x.Add(x, lo)
}

func numElem(k int, v *big.Int) elem {
	e := elem{kind: "num" + nkNames[k]}
	e.sops = []string{joinT("SNum", nkNames[k], zbig(v))}
	e.dop = joinT("DNum", nkNames[k])
	e.want = joinT("ONum", zbig(v))
	u, i := v.Uint64(), v.Int64()
	switch k {
	case 0:
		e.ser = func(s *serializer.Serializer) { s.WriteNum(uint8(u), idErr) }
		e.des = func(d *serializer.Deserializer) func(a, b error) string {
			var x uint8
			d.ReadNum(&x, idErr)
			return plain(func() string { return joinT("ONum", vx.ZU(uint64(x))) })
		}
	case 1:
		e.ser = func(s *serializer.Serializer) { s.WriteNum(uint16(u), idErr) }
		e.des = func(d *serializer.Deserializer) func(a, b error) string {
			var x uint16
			d.ReadNum(&x, idErr)
			return plain(func() string { return joinT("ONum", vx.ZU(uint64(x))) })
		}
	case 2:
		e.ser = func(s *serializer.Serializer) { s.WriteNum(uint32(u), idErr) }
		e.des = func(d *serializer.Deserializer) func(a, b error) string {
			var x uint32
			d.ReadNum(&x, idErr)
			return plain(func() string { return joinT("ONum", vx.ZU(uint64(x))) })
		}
	case 3:
		e.ser = func(s *serializer.Serializer) { s.WriteNum(u, idErr) }
		e.des = func(d *serializer.Deserializer) func(a, b error) string {
			var x uint64
			d.ReadNum(&x, idErr)
			return plain(func() string { return joinT("ONum", vx.ZU(x)) })
		}
	case 4:
		e.ser = func(s *serializer.Serializer) { s.WriteNum(int8(i), idErr) }
		e.des = func(d *serializer.Deserializer) func(a, b error) string {
			var x int8
			d.ReadNum(&x, idErr)
			return plain(func() string { return joinT("ONum", vx.Z(int64(x))) })
		}
	case 5:
		e.ser = func(s *serializer.Serializer) { s.WriteNum(int16(i), idErr) }
		e.des = func(d *serializer.Deserializer) func(a, b error) string {
			var x int16
			d.ReadNum(&x, idErr)
			return plain(func() string { return joinT("ONum", vx.Z(int64(x))) })
		}
	case 6:
		e.ser = func(s *serializer.Serializer) { s.WriteNum(int32(i), idErr) }
		e.des = func(d *serializer.Deserializer) func(a, b error) string {
			var x int32
			d.ReadNum(&x, idErr)
			return plain(func() string { return joinT("ONum", vx.Z(int64(x))) })
		}
	case 7:
		e.ser = func(s *serializer.Serializer) { s.WriteNum(i, idErr) }
		e.des = func(d *serializer.Deserializer) func(a, b error) string {
			var x int64
			d.ReadNum(&x, idErr)
			return plain(func() string { return joinT("ONum", vx.Z(x)) })
		}
	}
	return e
}

// float32/float64 travel as bit patterns: model kinds U32/U64
func floatElem(r *vx.Rng, wide bool) elem {
	if wide {
		bits := []uint64{0, math.Float64bits(1.5), math.Float64bits(math.Inf(-1)), 0x7ff8000000000001, r.U64()}[r.Intn(5)]
		e := elem{kind: "float64"}
		e.sops = []string{joinT("SNum", "U64", vx.ZU(bits))}
		e.dop = "(DNum U64)"
		e.want = joinT("ONum", vx.ZU(bits))
		e.ser = func(s *serializer.Serializer) { s.WriteNum(math.Float64frombits(bits), idErr) }
		e.des = func(d *serializer.Deserializer) func(a, b error) string {
			var x float64
			d.ReadNum(&x, idErr)
			return plain(func() string { return joinT("ONum", vx.ZU(math.Float64bits(x))) })
		}
		return e
	}
	bits := []uint32{0, math.Float32bits(1.5), 0x7fc00001, uint32(r.U64())}[r.Intn(4)]
	e := elem{kind: "float32"}
	e.sops = []string{joinT("SNum", "U32", vx.ZU(uint64(bits)))}
	e.dop = "(DNum U32)"
	e.want = joinT("ONum", vx.ZU(uint64(bits)))
	e.ser = func(s *serializer.Serializer) { s.WriteNum(math.Float32frombits(bits), idErr) }
	e.des = func(d *serializer.Deserializer) func(a, b error) string {
		var x float32
		d.ReadNum(&x, idErr)
		return plain(func() string { return joinT("ONum", vx.ZU(uint64(math.Float32bits(x)))) })
	}
	return e
}

func lenPick(r *vx.Rng) int {
	switch r.Intn(12) {
	case 0:
		return 0
	case 1:
		return 255
	case 2:
		return 256
	case 3:
		return 300
	}
	return r.Intn(12)
}

// bounds around n; ok=false means the read side uses bounds that n violates
func boundsFor(r *vx.Rng, n int) (mn, mx int, ok bool) {
	switch r.Intn(8) {
	case 0:
		return 0, 0, true
	case 1:
		return n, n, true
	case 2:
		return 0, n + r.Intn(3), true
	case 3:
		if n > 0 {
			return n - r.Intn(2), 0, true
		}
		return 0, 0, true
	case 4:
		if n > 0 {
			return 0, n - 1, n-1 == 0 // max 0 = unbounded
		}
		return 1, 0, false
	case 5:
		return n + 1, 0, false
	case 6:
		return n + 1, n + 2, false
	}
	return r.Intn(3), n + r.Intn(3), true
}

func varElem(r *vx.Rng, str bool, l serializer.SeriLengthPrefixType, data []byte, mn, mx int, boundsOK bool) elem {
	name, sname, dname := "var", "SVar", "DVar"
	if str {
		name, sname, dname = "string", "SString", "DString"
	}
	e := elem{kind: name + lptT(l), prefix: []int{lptSize(l)}}
	wmn, wmx := mn, mx
	if !boundsOK {
		wmn, wmx = 0, 0 // written without bounds, read with violated ones
	}
	e.sops = []string{joinT(sname, lptT(l), bytesT(data), vx.Z(int64(wmn)), vx.Z(int64(wmx)))}
	e.dop = joinT(dname, lptT(l), vx.Z(int64(mn)), vx.Z(int64(mx)))
	if boundsOK {
		e.want = joinT("OBytes", bytesT(data))
	}
	if str {
		e.ser = func(s *serializer.Serializer) { s.WriteString(string(data), l, idErr, wmn, wmx) }
		e.des = func(d *serializer.Deserializer) func(a, b error) string {
			var x string
			d.ReadString(&x, l, idErr, mn, mx)
			return plain(func() string { return joinT("OBytes", bytesT([]byte(x))) })
		}
	} else {
		e.ser = func(s *serializer.Serializer) { s.WriteVariableByteSlice(data, l, idErr, wmn, wmx) }
		e.des = func(d *serializer.Deserializer) func(a, b error) string {
			var x []byte
			d.ReadVariableByteSlice(&x, l, idErr, mn, mx)
			return plain(func() string {
				if x == nil {
					return "ONone"
				}
				return joinT("OBytes", bytesT(x))
			})
		}
	}
	return e
}

type itemKind struct {
	kind int // 0 fixed k, 1 var, 2 fail
	k    int
}

func (it itemKind) term() string {
	switch it.kind {
	case 0:
		return fmt.Sprintf("(item_run (IFixed %d))", it.k)
	case 1:
		return "(item_run IVar)"
	}
	return "(item_run IFail)"
}

func (it itemKind) fn(seen *[][]byte) serializer.DeserializeFunc {
	return func(b []byte) (int, error) {
		seqIterCount++
		n := 0
		switch it.kind {
		case 0:
			if len(b) < it.k {
				return 0, errItem
			}
			n = it.k
		case 1:
			if len(b) == 0 || len(b) < 1+int(b[0]) {
				return 0, errItem
			}
			n = 1 + int(b[0])
		default:
			return 0, errItem
		}
		if len(*seen) < 1<<12 { // the record of what the callback saw is capped (only matters for the D02d directed case)
			*seen = append(*seen, b[:n])
		}
		return n, nil
	}
}

var modeNames = []string{"VNone", "VNoDup", "VLex", "VLexNoDup"}
var modeVals = []serializer.ArrayValidationMode{
	serializer.ArrayValidationModeNone, serializer.ArrayValidationModeNoDuplicates,
	serializer.ArrayValidationModeLexicalOrdering,
	serializer.ArrayValidationModeNoDuplicates | serializer.ArrayValidationModeLexicalOrdering,
}

func seqElem(l serializer.SeriLengthPrefixType, it itemKind, items [][]byte, validation bool, mn, mx uint, mode int) elem {
	e := elem{kind: "seq" + lptT(l) + modeNames[mode], prefix: []int{lptSize(l)}, zeroSz: it.kind == 0 && it.k == 0}
	count := uint64(len(items))
	pk := map[int]int{1: 0, 2: 1, 4: 2, 8: 3}[lptSize(l)]
	e.sops = []string{joinT("SNum", nkNames[pk], vx.ZU(count))}
	var flat []byte
	for _, x := range items {
		flat = append(flat, x...)
	}
	e.sops = append(e.sops, joinT("SBytes", bytesT(flat)))
	e.ser = func(s *serializer.Serializer) {
		switch pk {
		case 0:
			s.WriteNum(uint8(count), idErr)
		case 1:
			s.WriteNum(uint16(count), idErr)
		case 2:
			s.WriteNum(uint32(count), idErr)
		default:
			s.WriteNum(count, idErr)
		}
		s.WriteBytes(flat, idErr)
	}
	e.dop = joinT("DSeq", vx.Bool(validation), lptT(l), it.term(),
		joinT("mkRules", vx.ZU(uint64(mn)), vx.ZU(uint64(mx)), modeNames[mode]))
	mode0 := serializer.DeSeriModeNoValidation
	if validation {
		mode0 = serializer.DeSeriModePerformValidation
	}
	e.des = func(d *serializer.Deserializer) func(a, b error) string {
		var seen [][]byte
		rules := &serializer.ArrayRules{Min: mn, Max: mx, ValidationMode: modeVals[mode]}
		d.ReadSequenceOfObjects(it.fn(&seen), mode0, l, rules, idErr)
		return func(before, after error) string {
			if before != nil {
				return "ONone"
			}
			return joinT("OSeq", listOfBytes(seen))
		}
	}
	return e
}

const maxNanoSec = math.MaxInt64 / 1_000_000_000

func timeElem(r *vx.Rng) elem {
	secs := []int64{0, 1, 1700000000, maxNanoSec, maxNanoSec + 1, maxNanoSec - 1, -1, -62135596800, 1 << 40, int64(r.U64() % (maxNanoSec + 5))}
	nsecs := []int64{0, 1, 854775807, 854775808, 999999999, int64(r.Intn(1_000_000_000))}
	sec, nsec := vx.Pick(r, secs), vx.Pick(r, nsecs)
	t := time.Unix(sec, nsec)
	e := elem{kind: "time"}
	e.sops = []string{joinT("STime", vx.Z(sec), vx.Z(nsec))}
	e.dop = "DTime"
	// round-trip expectation only inside the representable window (clamping outside is documented design)
	if sec >= 0 && (sec < maxNanoSec || (sec == maxNanoSec && nsec <= 854775807)) {
		e.want = joinT("ONum", vx.Z(sec*1_000_000_000+nsec))
	}
	e.ser = func(s *serializer.Serializer) { s.WriteTime(t, idErr) }
	e.des = func(d *serializer.Deserializer) func(a, b error) string {
		var x time.Time
		d.ReadTime(&x, idErr)
		return plain(func() string { return joinT("ONum", vx.Z(x.UnixNano())) })
	}
	return e
}

func rawTimeElem(ns uint64) elem { // DTime over an arbitrary uint64 (not produced by WriteTime)
	e := numElem(3, new(big.Int).SetUint64(ns))
	e.kind = "rawtime"
	e.want = ""
	e.dop = "DTime"
	e.des = func(d *serializer.Deserializer) func(a, b error) string {
		var x time.Time
		d.ReadTime(&x, idErr)
		return plain(func() string { return joinT("ONum", vx.Z(x.UnixNano())) })
	}
	return e
}

func genElem(r *vx.Rng, allowBadCfg bool) elem {
	switch r.Intn(23) {
	case 19, 20, 21, 22:
		return genObjElem(r)
	case 0:
		n := r.Intn(5)
		data := rbytes(r, n)
		return elem{kind: "skip", sops: []string{joinT("SBytes", bytesT(data))}, dop: fmt.Sprintf("(DSkip %d)", n), want: "ONone",
			ser: func(s *serializer.Serializer) { s.WriteBytes(data, idErr) },
			des: func(d *serializer.Deserializer) func(a, b error) string {
				d.Skip(n, idErr)
				return plain(func() string { return "ONone" })
			}}
	case 1:
		b := r.Bool()
		e := elem{kind: "bool", sops: []string{joinT("SBool", vx.Bool(b))}, dop: "DBool", want: joinT("OBool", vx.Bool(b)),
			ser: func(s *serializer.Serializer) { s.WriteBool(b, idErr) }}
		e.des = func(d *serializer.Deserializer) func(a, b error) string {
			var x bool
			d.ReadBool(&x, idErr)
			return plain(func() string { return joinT("OBool", vx.Bool(x)) })
		}
		if r.Chance(1, 4) { // a byte that is no bool
			v := byte(2 + r.Intn(254))
			e.kind, e.sops, e.want = "badbool", []string{joinT("SByte", vx.N(uint64(v)))}, ""
			e.ser = func(s *serializer.Serializer) { s.WriteByte(v, idErr) }
		}
		return e
	case 2:
		v := byte(r.U64())
		return elem{kind: "byte", sops: []string{joinT("SByte", vx.N(uint64(v)))}, dop: "DByte", want: joinT("ONum", vx.ZU(uint64(v))),
			ser: func(s *serializer.Serializer) { s.WriteByte(v, idErr) },
			des: func(d *serializer.Deserializer) func(a, b error) string {
				var x byte
				d.ReadByte(&x, idErr)
				return plain(func() string { return joinT("ONum", vx.ZU(uint64(x))) })
			}}
	case 3:
		var z *big.Int
		switch r.Intn(4) {
		case 0:
			z = big.NewInt(int64(r.Intn(3)))
		case 1:
			z = new(big.Int).Sub(new(big.Int).Lsh(big.NewInt(1), 256), big.NewInt(1))
		default:
			z = new(big.Int).SetBytes(rbytes(r, r.Intn(33)))
		}
		return elem{kind: "u256", sops: []string{joinT("SU256", "(Some "+zbig(z)+")")}, dop: "DU256", want: joinT("ONum", zbig(z)),
			ser: func(s *serializer.Serializer) { s.WriteUint256(z, idErr) },
			des: func(d *serializer.Deserializer) func(a, b error) string {
				var x *big.Int
				d.ReadUint256(&x, idErr)
				return plain(func() string { return joinT("ONum", zbig(x)) })
			}}
	case 4, 5:
		k := r.Intn(8)
		return numElem(k, rnum(r, k))
	case 6:
		return floatElem(r, r.Bool())
	case 7:
		n := lenPick(r) % 64
		data := rbytes(r, n)
		inPlace := r.Bool()
		return elem{kind: "bytes", sops: []string{joinT("SBytes", bytesT(data))}, dop: fmt.Sprintf("(DBytes %d)", n), want: joinT("OBytes", bytesT(data)),
			ser: func(s *serializer.Serializer) { s.WriteBytes(data, idErr) },
			des: func(d *serializer.Deserializer) func(a, b error) string {
				var x []byte
				if inPlace {
					x = make([]byte, n)
					d.ReadBytesInPlace(x, idErr)
				} else {
					d.ReadBytes(&x, n, idErr)
				}
				return plain(func() string { return joinT("OBytes", bytesT(x)) })
			}}
	case 8, 9, 10:
		l := vx.Pick(r, goodLpts)
		if allowBadCfg && r.Chance(1, 40) {
			l = badLpt
		}
		n := lenPick(r)
		if l == serializer.SeriLengthPrefixTypeAsByte && n > 255 {
			n = 255
		}
		mn, mx, ok := boundsFor(r, n)
		return varElem(r, r.Chance(1, 3), l, rbytes(r, n), mn, mx, ok)
	case 11:
		if r.Chance(1, 3) {
			return rawTimeElem([]uint64{math.MaxInt64, math.MaxInt64 + 1, 9223372036999999999, 9223372037000000000, math.MaxUint64, r.U64()}[r.Intn(6)])
		}
		return timeElem(r)
	case 12:
		n := []uint32{0, 1, 5, math.MaxUint32, uint32(r.U64())}[r.Intn(5)]
		return elem{kind: "payloadlen", sops: []string{joinT("SPayloadLen", vx.ZU(uint64(n)))}, dop: "DPayloadLen", want: joinT("ONum", vx.ZU(uint64(n))),
			ser: func(s *serializer.Serializer) { s.WritePayloadLength(int(n), idErr) },
			des: func(d *serializer.Deserializer) func(a, b error) string {
				v, err := d.ReadPayloadLength()
				return func(_, _ error) string {
					if err != nil {
						return joinT("OErrv", classify(err))
					}
					return joinT("ONum", vx.ZU(uint64(v)))
				}
			}}
	case 13, 14, 15, 16, 17:
		l := vx.Pick(r, goodLpts)
		it := itemKind{kind: 0, k: r.Intn(4)}
		if r.Chance(1, 3) {
			it = itemKind{kind: 1}
		} else if r.Chance(1, 12) {
			it = itemKind{kind: 2}
		}
		count := r.Intn(6)
		var items [][]byte
		pool := r.Chance(1, 2) // draw from two values: duplicates and ties are common
		for i := 0; i < count; i++ {
			if pool && len(items) >= 2 {
				items = append(items, exact(items[r.Intn(2)]))
				continue
			}
			switch it.kind {
			case 0:
				x := make([]byte, it.k)
				for j := range x {
					x[j] = byte(r.Intn(3))
				}
				items = append(items, x)
			default:
				n := r.Intn(3)
				x := append([]byte{byte(n)}, rbytes(r, n)...)
				for j := 1; j < len(x); j++ {
					x[j] %= 3
				}
				items = append(items, x)
			}
		}
		if r.Chance(1, 2) { // sorted input so that lexical modes pass
			for i := range items {
				for j := i + 1; j < len(items); j++ {
					if string(items[j]) < string(items[i]) {
						items[i], items[j] = items[j], items[i]
					}
				}
			}
		}
		var mn, mx uint
		switch r.Intn(5) {
		case 0:
			mn, mx = uint(count), uint(count)
		case 1:
			mn = uint(count + 1)
		case 2:
			if count > 0 {
				mx = uint(count - 1)
			}
		case 3:
			mx = uint(count + 2)
		}
		return seqElem(l, it, items, r.Chance(2, 3), mn, mx, r.Intn(4))
	default:
		u32 := r.Bool()
		p := uint32(r.Intn(4))
		if r.Chance(1, 3) {
			p = uint32(r.U64())
		}
		w := p
		if r.Chance(1, 4) {
			w = p + 1
		}
		e := elem{kind: "checktype", dop: joinT("DCheckType", vx.ZU(uint64(p)), vx.Bool(u32))}
		if w == p || (!u32 && byte(w) == byte(p)) {
			e.want = "ONone"
		}
		td := serializer.TypeDenotationByte
		if u32 {
			td = serializer.TypeDenotationUint32
			e.sops = []string{joinT("SNum", "U32", vx.ZU(uint64(w)))}
			e.ser = func(s *serializer.Serializer) { s.WriteNum(w, idErr) }
		} else {
			e.sops = []string{joinT("SNum", "U8", vx.ZU(uint64(byte(w))))}
			e.ser = func(s *serializer.Serializer) { s.WriteNum(byte(w), idErr) }
		}
		e.des = func(d *serializer.Deserializer) func(a, b error) string {
			d.CheckTypePrefix(p, td, idErr)
			return plain(func() string { return "ONone" })
		}
		return e
	}
}

func consumedAllElem() elem {
	return elem{kind: "consumedall", dop: "DConsumedAll", want: "ONone",
		ser: func(s *serializer.Serializer) {},
		des: func(d *serializer.Deserializer) func(a, b error) string {
			d.ConsumedAll(func(left int, err error) error { return err })
			return plain(func() string { return "ONone" })
		}}
}

// serialize runs the program's write side on the real Serializer.
func serialize(prog []elem) (out []byte, err error, panicked bool) {
	_, panicked, _ = measured(func() {
		s := serializer.NewSerializer()
		for _, e := range prog {
			e.ser(s)
		}
		var b []byte
		b, err = s.Serialize()
		out = exact(b)
	})
	return
}

func progTerms(prog []elem) (sops, dops, wants []string, kinds string) {
	for _, e := range prog {
		sops = append(sops, e.sops...)
		dops = append(dops, e.dop)
		wants = append(wants, e.want)
		kinds += e.kind + ","
	}
	return
}

func resBytesT(b []byte, err error, panicked bool) string {
	switch {
	case panicked:
		return "Panic"
	case err != nil:
		return joinT("Err", classify(err))
	}
	return joinT("Ok", bytesT(b))
}

func desCaseT(input []byte, dops []string, o desObs) string {
	return joinT("CDes", bytesT(input), vx.List(dops), vx.List(o.outs), vx.Nat(o.off), optErr(o.err), vx.Bool(o.panicked), vx.N(o.alloc))
}
