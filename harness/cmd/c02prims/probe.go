package main

import (
	"bytes"
	"fmt"
	"runtime"
	"testing/iotest"

	"github.com/iotaledger/hive.go/serializer/v2"
	"github.com/iotaledger/hive.go/serializer/v2/stream"
)

// probe replays the three defects of DESIGN.md §6 that belong to this part on the real code and prints what
// happens (run it under `ulimit -v` so that an unbounded allocation fails instead of exhausting the machine).
func allocDelta(f func()) (delta uint64, panicked any) {
	var m0, m1 runtime.MemStats
	runtime.GC()
	runtime.ReadMemStats(&m0)
	func() {
		defer func() { panicked = recover() }()
		f()
	}()
	runtime.ReadMemStats(&m1)
	return m1.TotalAlloc - m0.TotalAlloc, panicked
}

func probe() {
	// D01c: ReadBytes through a reader that returns one byte per Read.
	data := []byte("hello world")
	b, err := stream.ReadBytes(iotest.OneByteReader(bytes.NewReader(data)), len(data))
	fmt.Printf("D01c ReadBytes(OneByteReader, 11): %q err=%v\n", b, err)

	// D02a: 6-byte input, 32-bit prefix 0x0fffffff (256 MiB; the table's 0x3fffffff = 1 GiB behaves the same), maxLen 10.
	in := []byte{0xff, 0xff, 0xff, 0x0f, 1, 2}
	d, p := allocDelta(func() {
		var out []byte
		n, e := serializer.NewDeserializer(in).ReadVariableByteSlice(&out, serializer.SeriLengthPrefixTypeAsUint32,
			func(err error) error { return err }, 0, 10).Done()
		fmt.Printf("D02a ReadVariableByteSlice(6 bytes, max 10): n=%d err=%v len(out)=%d\n", n, e, len(out))
	})
	fmt.Printf("D02a allocated %d bytes, panic=%v\n", d, p)

	// D02c: uint64 prefix ff..ff, and a large prefix with 2 bytes of data.
	d, p = allocDelta(func() {
		_, e := stream.ReadBytesWithSize(bytes.NewReader(bytes.Repeat([]byte{0xff}, 8)), serializer.SeriLengthPrefixTypeAsUint64)
		fmt.Printf("D02c ReadBytesWithSize(u64 ff..ff): err=%v\n", e)
	})
	fmt.Printf("D02c(1) allocated %d bytes, panic=%v\n", d, p)
	d, p = allocDelta(func() {
		_, e := stream.ReadBytesWithSize(bytes.NewReader([]byte{0xff, 0xff, 0xff, 0x0f, 1, 2}), serializer.SeriLengthPrefixTypeAsUint32)
		fmt.Printf("D02c ReadBytesWithSize(u32 0x0fffffff, 2 bytes of data): err=%v\n", e)
	})
	fmt.Printf("D02c(2) allocated %d bytes, panic=%v\n", d, p)
}
