package main

import (
	"encoding/hex"
	"errors"
	"fmt"
	"io"
	"math/big"
	"runtime"
	"strings"

	"github.com/iotaledger/hive.go/ierrors"
	"github.com/iotaledger/hive.go/serializer/v2"

	"verif/harness/vx"
)

var (
	errItem  = errors.New("harness: item callback error")
	errFault = errors.New("harness: reader fault")
)

// classify maps an error to the model's eclass (by sentinel, never by text).
func classify(err error) string {
	switch {
	case err == nil:
		return ""
	case ierrors.Is(err, errItem):
		return "EItem"
	case ierrors.Is(err, errFault):
		return "EFault"
	case ierrors.Is(err, serializer.ErrDeserializationLengthMaxExceeded):
		return "ELenMax"
	case ierrors.Is(err, serializer.ErrDeserializationLengthMinNotReached):
		return "ELenMin"
	case ierrors.Is(err, serializer.ErrDeserializationLengthInvalid):
		return "ELenInvalid"
	case ierrors.Is(err, serializer.ErrDeserializationNotEnoughData):
		return "ENotEnough"
	case ierrors.Is(err, serializer.ErrDeserializationInvalidBoolValue):
		return "EBadBool"
	case ierrors.Is(err, serializer.ErrArrayValidationMinElementsNotReached):
		return "EArrMin"
	case ierrors.Is(err, serializer.ErrArrayValidationMaxElementsExceeded):
		return "EArrMax"
	case ierrors.Is(err, serializer.ErrArrayValidationViolatesUniqueness):
		return "EDup"
	case ierrors.Is(err, serializer.ErrArrayValidationOrderViolatesLexicalOrder):
		return "EOrder"
	case ierrors.Is(err, serializer.ErrDeserializationNotAllConsumed):
		return "ENotAllConsumed"
	case ierrors.Is(err, serializer.ErrDeserializationTypeMismatch):
		return "ETypeMismatch"
	case ierrors.Is(err, serializer.ErrSliceLengthTooLong):
		return "ESliceLong"
	case ierrors.Is(err, serializer.ErrSliceLengthTooShort):
		return "ESliceShort"
	case ierrors.Is(err, serializer.ErrStringTooLong):
		return "EStrLong"
	case ierrors.Is(err, serializer.ErrStringTooShort):
		return "EStrShort"
	case ierrors.Is(err, serializer.ErrUint256Nil):
		return "EU256Nil"
	case ierrors.Is(err, serializer.ErrUint256NumNegative):
		return "EU256Neg"
	case ierrors.Is(err, serializer.ErrUint256TooBig):
		return "EU256Big"
	case ierrors.Is(err, io.ErrUnexpectedEOF):
		return "EUnexpEOF"
	case ierrors.Is(err, io.EOF):
		return "EEOF"
	}
	return "EOther"
}

func optErr(err error) string {
	if err == nil {
		return "None"
	}
	return "(Some " + classify(err) + ")"
}

// ---------- Coq terms ----------

func zbig(v *big.Int) string { return vx.ZBig(v) }

// patBytes is the Coq function Corr.pat: n bytes 0, 1, ..., 250, 0, 1, ... (period 251).
func patBytes(n int) []byte {
	b := make([]byte, n)
	for i := range b {
		b[i] = byte(i % 251)
	}
	return b
}

// bytesT prints a byte string as a Coq list. A large one that is (a few bytes ++) a prefix of the pattern (++ a few
// bytes) is written with Corr.pat, so that a case with 2^20 bytes of data stays a short term.
func bytesT(b []byte) string {
	const big, edge = 16384, 64
	if len(b) < big {
		return vx.Bytes(b)
	}
	for j := 0; j <= edge; j++ {
		k := 0
		for j+k < len(b) && b[j+k] == byte(k%251) {
			k++
		}
		if k >= big && len(b)-j-k <= edge {
			parts := []string{}
			if j > 0 {
				parts = append(parts, vx.Bytes(b[:j]))
			}
			parts = append(parts, fmt.Sprintf("pat %d%%N", k))
			if j+k < len(b) {
				parts = append(parts, vx.Bytes(b[j+k:]))
			}
			return "(" + strings.Join(parts, " ++ ") + ")"
		}
	}
	return vx.Bytes(b)
}

// natT prints a nat; a large one through N (a nat literal of a million is a deep unary term for Coq's parser).
func natT(n int) string {
	if n > 5000 {
		return fmt.Sprintf("(N.to_nat %d%%N)", n)
	}
	return vx.Nat(n)
}

func listOfBytes(l [][]byte) string {
	if len(l) == 0 {
		return "([]:list (list N))"
	}
	return vx.ListOf(l, bytesT)
}

var lptNames = map[serializer.SeriLengthPrefixType]string{
	serializer.SeriLengthPrefixTypeAsByte:   "L8",
	serializer.SeriLengthPrefixTypeAsUint16: "L16",
	serializer.SeriLengthPrefixTypeAsUint32: "L32",
	serializer.SeriLengthPrefixTypeAsUint64: "L64",
}

func lptT(l serializer.SeriLengthPrefixType) string {
	if n, ok := lptNames[l]; ok {
		return n
	}
	return "LBad"
}

func lptSize(l serializer.SeriLengthPrefixType) int {
	switch l {
	case serializer.SeriLengthPrefixTypeAsByte:
		return 1
	case serializer.SeriLengthPrefixTypeAsUint16:
		return 2
	case serializer.SeriLengthPrefixTypeAsUint32:
		return 4
	case serializer.SeriLengthPrefixTypeAsUint64:
		return 8
	}
	return 0
}

var goodLpts = []serializer.SeriLengthPrefixType{
	serializer.SeriLengthPrefixTypeAsByte, serializer.SeriLengthPrefixTypeAsUint16,
	serializer.SeriLengthPrefixTypeAsUint32, serializer.SeriLengthPrefixTypeAsUint64,
}

const badLpt = serializer.SeriLengthPrefixType(7)

// number kinds
var nkNames = []string{"U8", "U16", "U32", "U64", "I8", "I16", "I32", "I64"}

func nkSize(k int) int { return 1 << (k % 4) }

func hexs(b []byte) string {
	if len(b) > 96 {
		return hex.EncodeToString(b[:96]) + fmt.Sprintf("...(%d bytes)", len(b))
	}
	return hex.EncodeToString(b)
}

func exact(b []byte) []byte { // cap == len
	out := make([]byte, len(b))
	copy(out, b)
	return out
}

// ---------- measuring ----------

// measured runs f under recover and returns the TotalAlloc delta of the call.
func measured(f func()) (alloc uint64, panicked bool, pv any) {
	var m0, m1 runtime.MemStats
	runtime.ReadMemStats(&m0)
	func() {
		defer func() {
			if r := recover(); r != nil {
				panicked, pv = true, r
			}
		}()
		f()
	}()
	runtime.ReadMemStats(&m1)
	return m1.TotalAlloc - m0.TotalAlloc, panicked, pv
}

func joinT(parts ...string) string { return "(" + strings.Join(parts, " ") + ")" }

// Go-side resource bound of the property (independent of the model): 64 KiB + 64 bytes per input byte.
func allocBound(inputLen int) uint64 { return 65536 + 64*uint64(inputLen) }

// preallocLimit is what stream.ReadBytes may allocate before it has received anything (c8478d2): the claimed length,
// but never more than 1 MiB.
const preallocLimit = 1 << 20

// streamAllocBound is the Go-side bound for one stream read helper call on dataLen bytes of input whose length
// argument / length prefix claims `claimed` bytes. Two separate parts: what the DATA justifies - 4.5 bytes per byte of
// input (a buffer that doubles when it is full: all buffers together stay below 4 x the bytes received, plus rounding)
// and 64 bytes for each of the first 4096 (small reads, per-element bookkeeping) - and what the CLAIM alone justifies:
// the up-front buffer min(claimed, 1 MiB), nothing more. 1 MiB of data behind a prefix of 2^28 may cost 64 KiB +
// 256 KiB + 4.5 MiB + 1 MiB, not 256 MiB.
func streamAllocBound(dataLen int, claimed uint64) uint64 {
	d := uint64(dataLen)
	return 65536 + 64*min(d, 4096) + 4*d + d/2 + min(claimed, preallocLimit)
}
