package main

import (
	"encoding/binary"
	"fmt"

	"github.com/iotaledger/hive.go/serializer/v2"

	"verif/harness/vx"
)

// ---------- Serializable objects of the harness (Model.v: hobj / hsel / obj_item) ----------

// hObj is a Serializable made of a header of hdr bytes (the type denotation, which the object consumes itself) and a
// body of k bytes. Deserialize keeps the contract: an error when the data is too short, otherwise hdr+k consumed.
type hObj struct {
	hdr, k int
	fail   bool
	raw    []byte
}

func (o *hObj) MarshalJSON() ([]byte, error) { return []byte("null"), nil }
func (o *hObj) UnmarshalJSON([]byte) error   { return nil }
func (o *hObj) Serialize(serializer.DeSerializationMode, interface{}) ([]byte, error) {
	return exact(o.raw), nil
}
func (o *hObj) Deserialize(data []byte, _ serializer.DeSerializationMode, _ interface{}) (int, error) {
	seqIterCount++
	if o.fail {
		return 0, errItem
	}
	if len(data) < o.hdr+o.k {
		return 0, serializer.ErrDeserializationNotEnoughData
	}
	o.raw = exact(data[:o.hdr+o.k])
	return o.hdr + o.k, nil
}

// hSel is the selector: type code 0 or 1 = body of k1 bytes, 2 = k2 bytes, 3 = an object that fails, else rejected.
type hSel struct{ hdr, k1, k2 int }

func (h hSel) term() string { return fmt.Sprintf("(hsel %d %d %d)", h.hdr, h.k1, h.k2) }
func (h hSel) fn() serializer.SerializableReadGuardFunc {
	return func(ty uint32) (serializer.Serializable, error) {
		switch ty {
		case 0, 1:
			return &hObj{hdr: h.hdr, k: h.k1}, nil
		case 2:
			return &hObj{hdr: h.hdr, k: h.k2}, nil
		case 3:
			return &hObj{fail: true}, nil
		}
		return nil, errItem
	}
}

var tdenNames = []string{"TDU32", "TDByte", "TDNone"}
var tdenVals = []serializer.TypeDenotationType{serializer.TypeDenotationUint32, serializer.TypeDenotationByte, serializer.TypeDenotationNone}
var tdenSizes = []int{4, 1, 0}

// objBytes is a well-formed object of type code ty under denotation td: header + body.
func objBytes(r *vx.Rng, td int, ty uint32, k int) []byte {
	var b []byte
	switch td {
	case 0:
		b = binary.LittleEndian.AppendUint32(nil, ty)
	case 1:
		b = []byte{byte(ty)}
	}
	body := rbytes(r, k)
	for i := range body {
		body[i] %= 3
	}
	return append(b, body...)
}

func rawElem(kind string, raw []byte) elem {
	return elem{kind: kind, sops: []string{joinT("SBytes", bytesT(raw))}, ser: func(s *serializer.Serializer) { s.WriteBytes(raw, idErr) }}
}

func rawOf(s serializer.Serializable) string {
	if o, ok := s.(*hObj); ok && o != nil {
		return bytesT(o.raw)
	}
	return "([]:list N)"
}

// getTypeElem: GetObjectType (by value; offset and error untouched)
func getTypeElem(td int, raw []byte) elem {
	e := rawElem("gettype"+tdenNames[td], raw) // the bytes stay unread: GetObjectType does not move the offset
	e.dop = joinT("DGetType", tdenNames[td])
	e.des = func(d *serializer.Deserializer) func(a, b error) string {
		v, err := d.GetObjectType(tdenVals[td])
		return func(_, _ error) string {
			if err != nil {
				return joinT("OErrv", classify(err))
			}
			return joinT("ONum", vx.ZU(uint64(v)))
		}
	}
	return e
}

// objectElem: ReadObject with the selector h under denotation td; raw = the bytes the write side emits
func objectElem(td int, h hSel, raw []byte, valid bool) elem {
	e := rawElem("object"+tdenNames[td], raw)
	e.dop = joinT("DObject", tdenNames[td], h.term())
	if valid {
		e.want = joinT("OBytes", bytesT(raw))
	}
	e.des = func(d *serializer.Deserializer) func(a, b error) string {
		var got serializer.Serializable
		d.ReadObject(func(s serializer.Serializable) { got = s }, serializer.DeSeriModePerformValidation, nil, tdenVals[td], h.fn(), idErr)
		return func(before, after error) string {
			if before != nil || after != nil {
				return "ONone"
			}
			return joinT("OBytes", rawOf(got))
		}
	}
	return e
}

// payloadElem: ReadPayload; raw = 4-byte length + payload (u32 type + body), as the write side emits it
func payloadElem(h hSel, raw []byte, want string) elem {
	e := rawElem("payload", raw)
	e.prefix = []int{4}
	e.dop = joinT("DPayload", h.term())
	e.want = want
	e.des = func(d *serializer.Deserializer) func(a, b error) string {
		var got serializer.Serializable
		called := false
		d.ReadPayload(func(s serializer.Serializable) { got, called = s, true }, serializer.DeSeriModePerformValidation, nil, h.fn(), idErr)
		return func(before, after error) string {
			if before != nil || after != nil || !called {
				return "ONone"
			}
			return joinT("OBytes", rawOf(got))
		}
	}
	return e
}

// sliceOfObjectsElem: ReadSliceOfObjects = the sequence loop with readObject as the item deserializer
func sliceOfObjectsElem(l serializer.SeriLengthPrefixType, td int, h hSel, objs [][]byte, count uint64, validation bool, mn, mx uint, mode int) elem {
	var raw []byte
	switch lptSize(l) {
	case 1:
		raw = []byte{byte(count)}
	case 2:
		raw = binary.LittleEndian.AppendUint16(nil, uint16(count))
	case 4:
		raw = binary.LittleEndian.AppendUint32(nil, uint32(count))
	default:
		raw = binary.LittleEndian.AppendUint64(nil, count)
	}
	for _, o := range objs {
		raw = append(raw, o...)
	}
	e := rawElem("sliceofobjects"+lptT(l)+tdenNames[td]+modeNames[mode], raw)
	e.prefix = []int{lptSize(l)}
	e.zeroSz = tdenSizes[td]+min(h.k1, h.k2) == 0
	e.dop = joinT("DSeq", vx.Bool(validation), lptT(l), joinT("obj_item", tdenNames[td], h.term()),
		joinT("mkRules", vx.ZU(uint64(mn)), vx.ZU(uint64(mx)), modeNames[mode]))
	mode0 := serializer.DeSeriModeNoValidation
	if validation {
		mode0 = serializer.DeSeriModePerformValidation
	}
	e.des = func(d *serializer.Deserializer) func(a, b error) string {
		var seen serializer.Serializables
		rules := &serializer.ArrayRules{Min: mn, Max: mx, ValidationMode: modeVals[mode], Guards: serializer.SerializableGuard{ReadGuard: h.fn()}}
		var dd *serializer.Deserializer = d
		// the items are recorded through a wrapper of the read guard: the target callback only runs on success
		rules.Guards.ReadGuard = func(ty uint32) (serializer.Serializable, error) {
			s, err := h.fn()(ty)
			if err == nil {
				seen = append(seen, s)
			}
			return s, err
		}
		dd.ReadSliceOfObjects(func(serializer.Serializables) {}, mode0, nil, l, tdenVals[td], rules, idErr)
		return func(before, after error) string {
			if before != nil {
				return "ONone"
			}
			var items [][]byte
			for _, s := range seen {
				if o := s.(*hObj); o.raw != nil { // an object whose Deserialize failed was never an item
					items = append(items, o.raw)
				}
			}
			return joinT("OSeq", listOfBytes(items))
		}
	}
	return e
}

// genObjElem draws one of the object-reading primitives with a (mostly) well-formed encoding.
func genObjElem(r *vx.Rng) elem {
	td := r.Intn(3)
	h := hSel{hdr: tdenSizes[td], k1: r.Intn(3), k2: 1 + r.Intn(4)}
	pickTy := func() (uint32, int) {
		switch {
		case td == 2:
			return 0, h.k1
		case r.Chance(1, 10):
			return 3, 0
		case r.Chance(1, 10):
			return 4 + uint32(r.Intn(3)), 0
		case r.Bool():
			return 1, h.k1
		}
		return 2, h.k2
	}
	switch r.Intn(4) {
	case 0:
		// writes nothing: it peeks at the bytes of the next step (or at the end of the input). Bytes of its own would stay
		// unread and shift every later step, and a shifted count in front of zero-size items is the D02d pattern
		return getTypeElem(td, nil)
	case 1:
		ty, k := pickTy()
		return objectElem(td, h, objBytes(r, td, ty, k), ty <= 2)
	case 2:
		hp := hSel{hdr: 4, k1: h.k1, k2: h.k2}
		ty, k := uint32(1+r.Intn(2)), 0
		if ty == 1 {
			k = hp.k1
		} else {
			k = hp.k2
		}
		if r.Chance(1, 8) {
			ty = 3 + uint32(r.Intn(3))
		}
		payload := objBytes(r, 0, ty, k)
		plen := uint32(len(payload))
		switch r.Intn(8) {
		case 0:
			plen = 0
			payload = nil
		case 1:
			plen++
		case 2:
			plen--
		}
		raw := append(binary.LittleEndian.AppendUint32(nil, plen), payload...)
		want := ""
		// a payload of the type code alone (4 bytes) is the known finding C01 payload-type-only-at-end: ReadPayload wants
		// MinPayloadByteSize = 5 bytes behind the length field, so it is read only when something follows it. No
		// round-trip expectation for it (the directed case of the stream part reproduces it through WritePayload).
		if plen == uint32(len(payload)) && ty <= 2 && len(payload) > 4 {
			want = joinT("OBytes", bytesT(payload))
		} else if plen == 0 {
			want = "ONone"
		}
		return payloadElem(hp, raw, want)
	}
	l := vx.Pick(r, goodLpts)
	count := r.Intn(5)
	var objs [][]byte
	for i := 0; i < count; i++ {
		if len(objs) >= 2 && r.Bool() {
			objs = append(objs, exact(objs[r.Intn(2)]))
			continue
		}
		ty, k := pickTy()
		objs = append(objs, objBytes(r, td, ty, k))
	}
	if r.Bool() {
		for i := range objs {
			for j := i + 1; j < len(objs); j++ {
				if string(objs[j]) < string(objs[i]) {
					objs[i], objs[j] = objs[j], objs[i]
				}
			}
		}
	}
	var mn, mx uint
	switch r.Intn(5) {
	case 0:
		mn, mx = uint(count), uint(count)
	case 1:
		mn = uint(count + 1)
	case 2:
		mx = uint(count + 2)
	}
	return sliceOfObjectsElem(l, td, h, objs, uint64(count), r.Chance(2, 3), mn, mx, r.Intn(4))
}

// ---------- directed: inputs that end inside a nested header ----------

// allTruncations judges the program on every prefix of its well-formed input (0 .. len bytes). runDes copies the input
// into a slice with cap == len, so a read past the end panics instead of seeing stale bytes.
func (g *gen) allTruncations(prog []elem, what string) {
	input, err, panicked := serialize(prog)
	if err != nil || panicked {
		return
	}
	for n := 0; n <= len(input); n++ {
		g.judgeDes(input[:n], prog, runDes(input[:n], prog), what)
	}
}

func (g *gen) directedHeaders() {
	r := g.r
	// ReadPayload: declared length 0..8 x 0..8 bytes really present behind the length field (type 1 = 4-byte payload,
	// type 2 = 6-byte payload), and a length field cut after 0..3 bytes. MinPayloadByteSize = 5 sits in the middle.
	hp := hSel{hdr: 4, k1: 0, k2: 2}
	for _, ty := range []uint32{1, 2} {
		full := append(binary.LittleEndian.AppendUint32(nil, ty), 7, 8, 9, 10)
		for l := uint32(0); l <= 8; l++ {
			for n := 0; n <= 8; n++ {
				data := append(binary.LittleEndian.AppendUint32(nil, l), full[:n]...)
				prog := []elem{payloadElem(hp, data, "")}
				if (l+uint32(n))%3 == 0 {
					prog = append(prog, consumedAllElem())
				}
				g.judgeDes(data, prog, runDes(data, prog), "directed-payload-grid")
			}
		}
	}
	for n := 0; n < 4; n++ {
		data := []byte{2, 0, 0, 0}[:n]
		prog := []elem{payloadElem(hp, data, "")}
		g.judgeDes(data, prog, runDes(data, prog), "directed-payload-grid")
	}
	// every prefix of a well-formed encoding, for each primitive that reads a nested header
	for td := 0; td < 3; td++ {
		h := hSel{hdr: tdenSizes[td], k1: 1, k2: 3}
		for _, ty := range []uint32{1, 2} {
			k := map[uint32]int{1: h.k1, 2: h.k2}[ty]
			g.allTruncations([]elem{objectElem(td, h, objBytes(r, td, ty, k), true)}, "directed-truncated-header")
			g.allTruncations([]elem{getTypeElem(td, objBytes(r, td, ty, k))}, "directed-truncated-header")
		}
		if td == 2 {
			continue
		}
		for i, l := range goodLpts {
			objs := [][]byte{objBytes(r, td, 1, h.k1), objBytes(r, td, 2, h.k2)}
			g.allTruncations([]elem{sliceOfObjectsElem(l, td, h, objs, 2, i%2 == 0, 0, 0, i%4)}, "directed-truncated-header")
		}
	}
	payload := append(binary.LittleEndian.AppendUint32(nil, 2), 5, 6)
	g.allTruncations([]elem{payloadElem(hp, append(binary.LittleEndian.AppendUint32(nil, 6), payload...), ""), consumedAllElem()}, "directed-truncated-header")
	// ... and for a sample of all other primitives
	for i := 0; i < 14; i++ {
		e := genElem(r, false)
		if b, err, p := serialize([]elem{e}); err == nil && !p && len(b) <= 24 && !e.zeroSz {
			g.allTruncations([]elem{e}, "truncated-every-prefix")
		}
	}
}

const sigPayloadTypeOnly = "payload-type-only-at-end"

// directedPayloadFinding: WritePayload accepts a Serializable that encodes to its 4-byte type code alone; ReadPayload
// rejects exactly that when it is the last thing in the input (fewer than MinPayloadByteSize = 5 bytes behind the length
// field), and reads it when anything follows. Known finding (C01); any other outcome of the pair is a failure.
func (g *gen) directedPayloadFinding() {
	hp := hSel{hdr: 4, k1: 0, k2: 2}
	obj := &hObj{hdr: 4, k: 0, raw: []byte{1, 0, 0, 0}}
	ser := serializer.NewSerializer()
	ser.WritePayload(obj, serializer.DeSeriModePerformValidation, nil, nil, idErr)
	written, err := ser.Serialize()
	if err != nil || string(written) != string([]byte{4, 0, 0, 0, 1, 0, 0, 0}) {
		g.fail(map[string]any{"sig": "payload-write", "bytes": hexs(written), "err": fmt.Sprint(err)})
		return
	}
	for _, tail := range [][]byte{nil, {9}} {
		in := append(exact(written), tail...)
		prog := []elem{payloadElem(hp, in, "")}
		o := runDes(in, prog)
		_, dops, _, _ := progTerms(prog)
		g.add(desCaseT(in, dops, o), map[string]any{"what": "directed-payload-type-only", "input": hexs(in), "ops": dops}, "desser|payload-type-only", true)
		okRead := !o.panicked && o.err == nil && o.off == len(written) && len(o.outs) == 1 && o.outs[0] == joinT("OBytes", bytesT(written[4:]))
		switch {
		case len(tail) == 0 && !o.panicked && classify(o.err) == "ENotEnough":
			g.st.Known = append(g.st.Known, sigPayloadTypeOnly)
		case okRead: // followed by more data (or, should the library change, also at the end): round trip
		default:
			g.fail(map[string]any{"sig": "serdes-roundtrip", "what": "WritePayload/ReadPayload of a type-code-only payload", "bytes": hexs(in), "got": o.outs, "err": fmt.Sprint(o.err), "panicked": o.panicked})
		}
	}
}
