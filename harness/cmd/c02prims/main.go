package main

import "os"

func main() {
	if len(os.Args) > 1 && os.Args[1] == "probe" {
		probe()
		return
	}
}
