// Harness of the parts c02prims (C02: Deserializer primitives, stream Read helpers, typeutils, serializableorderedmap
// decode are total and resource-bounded) and c01stream (C01: stream Write/Read pairs round-trip through any reader,
// Serializer/Deserializer primitive pairs round-trip). Sub-commands: prims, stream, probe.
package main

import (
	"context"
	"encoding/binary"
	"flag"
	"fmt"
	"math"
	"math/big"
	"os"
	"strings"

	"github.com/iotaledger/hive.go/ds/serializableorderedmap"
	"github.com/iotaledger/hive.go/serializer/v2"
	"github.com/iotaledger/hive.go/serializer/v2/serix"
	"github.com/iotaledger/hive.go/serializer/v2/stream"
	"github.com/iotaledger/hive.go/serializer/v2/typeutils"

	"verif/harness/vx"
)

const sigD02d = "D02d-zero-size-items"

type gen struct {
	r     *vx.Rng
	st    *vx.Stats
	cf    *vx.CasesFile
	part  string
	fails int
	// set by the first stream-alloc failure: the implementation allocates what a length field claims, so a later case
	// claiming 2^40 bytes would kill the harness (out of memory is fatal in Go) and with it the failure already recorded
	allocBroken bool
	out, stats  string // where finish writes the cases and the statistics
}

// finish writes the cases and statistics files.
func (g *gen) finish() {
	g.st.Extra["oracle_failures_total"] = g.fails
	if err := g.cf.Write(g.out); err != nil {
		vx.Die("write cases: %v", err)
	}
	if err := g.st.Write(g.stats); err != nil {
		vx.Die("write stats: %v", err)
	}
}

// hang reports a stream read helper that did not return (with the input that made it loop), writes what has been
// collected so far and ends the run: the stuck goroutine cannot be stopped, and every later measurement would be skewed.
func (g *gen) hang(desc map[string]any) {
	desc["sig"] = "stream-hang"
	desc["deadline"] = readDeadline.String()
	g.fail(desc)
	g.finish()
	os.Exit(0)
}

func (g *gen) add(term string, desc map[string]any, key string, nontrivial bool) {
	g.cf.Add(term)
	desc["part"] = g.part
	g.st.CaseIndex = append(g.st.CaseIndex, desc)
	g.st.Case(term, nontrivial) // distinct = distinct case content (input, operations, reader script, observation)
	g.st.Count("class." + strings.SplitN(key, "|", 2)[0])
}

func (g *gen) fail(desc map[string]any) {
	g.fails++
	if g.fails <= 20 {
		desc["part"] = g.part
		g.st.Fail(desc)
	}
}

// ---------- Deserializer programs ----------

func (g *gen) genProg(allowBadCfg bool) []elem {
	n := 1 + g.r.Intn(4)
	var prog []elem
	for i := 0; i < n; i++ {
		prog = append(prog, genElem(g.r, allowBadCfg))
	}
	if g.r.Chance(1, 3) {
		prog = append(prog, consumedAllElem())
	}
	return prog
}

func progNontrivial(prog []elem) bool {
	if len(prog) >= 2 {
		return true
	}
	for _, e := range prog {
		if len(e.prefix) > 0 {
			return true
		}
	}
	return false
}

func hasZeroSize(prog []elem) bool {
	for _, e := range prog {
		if e.zeroSz {
			return true
		}
	}
	return false
}

func hasBadCfg(prog []elem) bool {
	for _, e := range prog {
		if strings.Contains(e.dop, "LBad") {
			return true
		}
	}
	return false
}

// c02 oracle on one Deserializer run (independent of the model)
func (g *gen) judgeDes(input []byte, prog []elem, o desObs, what string) {
	_, dops, _, kinds := progTerms(prog)
	desc := map[string]any{"what": what, "input": hexs(input), "ops": dops}
	g.add(desCaseT(input, dops, o), desc, "des|"+kinds+"|"+what+"|"+classify(o.err)+fmt.Sprint(o.panicked), progNontrivial(prog))
	g.st.Count("des." + what)
	if o.panicked {
		g.st.Count("des.outcome.panic")
	} else if o.err != nil {
		g.st.Count("des.outcome." + classify(o.err))
	} else {
		g.st.Count("des.outcome.ok")
	}
	switch {
	case o.panicked && !hasBadCfg(prog):
		g.fail(map[string]any{"sig": "des-panic", "input": hexs(input), "ops": dops, "panic": fmt.Sprint(o.pv)})
	case !o.panicked && o.off > len(input):
		g.fail(map[string]any{"sig": "des-consumed-gt-len", "input": hexs(input), "ops": dops, "off": o.off})
	case !o.panicked && o.alloc > allocBound(len(input)):
		g.fail(map[string]any{"sig": "des-alloc", "input": hexs(input), "ops": dops, "alloc": o.alloc, "bound": allocBound(len(input))})
	case o.seqIters > len(input)+1 && !hasZeroSize(prog): // zero-size items are the known finding D02d (directed case)
		g.fail(map[string]any{"sig": "des-iterations", "input": hexs(input), "ops": dops, "iterations": o.seqIters})
	}
}

var alphabet = []byte{0x00, 0x01, 0x02, 0x7f, 0x80, 0xff}

func (g *gen) mutations(input []byte, prog []elem) map[string][]byte {
	out := map[string][]byte{}
	r := g.r
	// offsets of the steps
	offs := make([]int, len(prog))
	pos := 0
	for i, e := range prog {
		offs[i] = pos
		b, _, _ := serialize([]elem{e})
		pos += len(b)
	}
	out["garbage-tail"] = append(exact(input), rbytes(r, 1+r.Intn(3))...)
	for _, e := range prog {
		if e.zeroSz {
			// known finding D02d: with zero-size items any corrupted count is iterated in full; steer away from the
			// pattern (the directed case reproduces it) so that it cannot mask other failures
			return out
		}
	}
	if len(input) > 0 {
		out["trunc-rand"] = input[:r.Intn(len(input))]
		out["trunc-last"] = input[:len(input)-1]
		fl := exact(input)
		fl[r.Intn(len(fl))] ^= 1 << uint(r.Intn(8))
		out["bitflip"] = fl
	}
	for i, e := range prog {
		if len(e.prefix) == 0 || e.zeroSz || e.prefix[0] == 0 || offs[i]+e.prefix[0] > len(input) {
			continue
		}
		w := e.prefix[0]
		inf := exact(input)
		switch r.Intn(4) {
		case 0: // 2^k - 1
			for j := 0; j < w; j++ {
				inf[offs[i]+j] = 0xff
			}
		case 1: // 2^(8w-1) - 1 .. : top byte 7f
			for j := 0; j < w; j++ {
				inf[offs[i]+j] = 0xff
			}
			inf[offs[i]+w-1] = byte(vx.Pick(r, []int{0x7f, 0x3f, 0x0f, 0x00, 0x80}))
		case 2: // +1
			inf[offs[i]]++
		default: // a middle byte set
			inf[offs[i]+r.Intn(w)] = byte(vx.Pick(r, []int{0x01, 0x10, 0xff}))
		}
		out[fmt.Sprintf("inflate%d", i)] = inf
		if r.Chance(1, 2) {
			out[fmt.Sprintf("inflate-trunc%d", i)] = inf[:offs[i]+w+r.Intn(len(inf)-offs[i]-w+1)]
		}
	}
	n := r.Intn(9)
	rs := make([]byte, n)
	for i := range rs {
		rs[i] = vx.Pick(r, alphabet)
	}
	out["random-short"] = rs
	return out
}

func sortedKeys(m map[string][]byte) []string {
	ks := make([]string, 0, len(m))
	for k := range m {
		ks = append(ks, k)
	}
	for i := range ks {
		for j := i + 1; j < len(ks); j++ {
			if ks[j] < ks[i] {
				ks[i], ks[j] = ks[j], ks[i]
			}
		}
	}
	return ks
}

// ---------- ordered map / from_bytes ----------

type integer interface {
	~uint8 | ~uint16 | ~uint32 | ~uint64 | ~int8 | ~int16 | ~int32 | ~int64
}

func omapRun[K interface {
	comparable
	integer
}, V integer](api *serix.API, input []byte) (entries []string, n int, err error) {
	m := serializableorderedmap.New[K, V]()
	n, err = m.Decode(api, input)
	m.ForEach(func(k K, v V) bool {
		entries = append(entries, fmt.Sprintf("((%d)%%Z, (%d)%%Z)", k, v))
		return true
	})
	return
}

func omapEncode[K interface {
	comparable
	integer
}, V integer](api *serix.API, ks, vs []uint64) ([]byte, error) {
	m := serializableorderedmap.New[K, V]()
	for i := range ks {
		m.Set(K(ks[i]), V(vs[i]))
	}
	return m.Encode(api)
}

var omapCombos = [][2]int{{0, 1}, {1, 0}, {2, 3}, {4, 5}, {0, 0}}

func (g *gen) omapCase(api *serix.API, combo int, input []byte, what string, valid bool) {
	var entries []string
	var n int
	var err error
	in := exact(input)
	alloc, panicked, pv := measured(func() {
		switch combo {
		case 0:
			entries, n, err = omapRun[uint8, uint16](api, in)
		case 1:
			entries, n, err = omapRun[uint16, uint8](api, in)
		case 2:
			entries, n, err = omapRun[uint32, uint64](api, in)
		case 3:
			entries, n, err = omapRun[int8, int16](api, in)
		default:
			entries, n, err = omapRun[uint8, uint8](api, in)
		}
	})
	res := "Panic"
	if !panicked {
		if err != nil {
			res = joinT("Err", classify(err))
		} else {
			l := "([]:list (Z*Z))"
			if len(entries) > 0 {
				l = vx.List(entries)
			}
			res = joinT("Ok", vx.Pair(l, vx.Nat(n)))
		}
	}
	kk, vk := nkNames[omapCombos[combo][0]], nkNames[omapCombos[combo][1]]
	desc := map[string]any{"what": "omap-" + what, "input": hexs(input), "types": kk + "->" + vk}
	g.add(joinT("COMap", kk, vk, bytesT(input), res, vx.N(alloc)), desc, "omap|"+kk+vk+what+classify(err)+fmt.Sprint(len(entries)), len(input) > 4)
	g.st.Count("omap." + what)
	switch {
	case panicked:
		g.fail(map[string]any{"sig": "omap-panic", "input": hexs(input), "panic": fmt.Sprint(pv)})
	case n > len(input):
		g.fail(map[string]any{"sig": "omap-consumed-gt-len", "input": hexs(input), "n": n})
	case alloc > allocBound(len(input))+256*uint64(len(entries)):
		g.fail(map[string]any{"sig": "omap-alloc", "input": hexs(input), "alloc": alloc})
	case valid && (err != nil || n != len(input)):
		g.fail(map[string]any{"sig": "omap-roundtrip", "input": hexs(input), "err": fmt.Sprint(err), "n": n})
	}
}

func (g *gen) omapCases(n int) {
	api := serix.NewAPI()
	_ = context.Background()
	r := g.r
	for i := 0; i < n; i++ {
		combo := r.Intn(len(omapCombos))
		cnt := r.Intn(5)
		ks, vs := make([]uint64, cnt), make([]uint64, cnt)
		for j := range ks {
			ks[j], vs[j] = uint64(r.Intn(4)), r.U64()
			if r.Chance(1, 4) {
				ks[j] = r.U64()
			}
		}
		var enc []byte
		var err error
		switch combo {
		case 0:
			enc, err = omapEncode[uint8, uint16](api, ks, vs)
		case 1:
			enc, err = omapEncode[uint16, uint8](api, ks, vs)
		case 2:
			enc, err = omapEncode[uint32, uint64](api, ks, vs)
		case 3:
			enc, err = omapEncode[int8, int16](api, ks, vs)
		default:
			enc, err = omapEncode[uint8, uint8](api, ks, vs)
		}
		if err != nil {
			vx.Die("omap encode: %v", err)
		}
		g.omapCase(api, combo, enc, "valid", true)
		if len(enc) > 0 {
			g.omapCase(api, combo, enc[:r.Intn(len(enc))], "trunc", false)
		}
		inf := exact(enc)
		switch r.Intn(3) {
		case 0:
			inf[0], inf[1], inf[2], inf[3] = 0xff, 0xff, 0xff, 0xff
		case 1:
			inf[0]++
		default:
			inf[2] = 0x01
		}
		g.omapCase(api, combo, inf, "inflate", false)
		// duplicates inside the wire data: count says cnt+1, the last entry repeats the first key
		if cnt > 0 {
			g.omapCase(api, combo, append(exact(enc), 0), "tail", false)
		}
		rs := make([]byte, r.Intn(9))
		for j := range rs {
			rs[j] = vx.Pick(r, alphabet)
		}
		g.omapCase(api, combo, rs, "random", false)
	}
}

func (g *gen) fromBytesCases(n int) {
	r := g.r
	for i := 0; i < n; i++ {
		arr := r.Bool()
		l := vx.Pick(r, []int{0, 1, 7, 8, 9, 31, 32, 33, 40})
		in := rbytes(r, l)
		var res string
		_, panicked, pv := measured(func() {
			if arr {
				v, c, err := typeutils.ByteArray32FromBytes(in)
				if err != nil {
					res = joinT("Err", classify(err))
				} else {
					res = joinT("Ok", vx.Pair(joinT("SVBytes", bytesT(v[:])), vx.Nat(c)))
				}
				if c > len(in) {
					g.fail(map[string]any{"sig": "frombytes-consumed-gt-len", "input": hexs(in)})
				}
			} else {
				v, c, err := typeutils.Uint64FromBytes(in)
				if err != nil {
					res = joinT("Err", classify(err))
				} else {
					res = joinT("Ok", vx.Pair(joinT("SVNum", vx.ZU(v)), vx.Nat(c)))
				}
				if c > len(in) {
					g.fail(map[string]any{"sig": "frombytes-consumed-gt-len", "input": hexs(in)})
				}
			}
		})
		if panicked {
			res = "Panic"
			g.fail(map[string]any{"sig": "frombytes-panic", "input": hexs(in), "panic": fmt.Sprint(pv)})
		}
		g.add(joinT("CFrom", vx.Bool(arr), bytesT(in), res), map[string]any{"what": "frombytes", "input": hexs(in), "arr32": arr},
			fmt.Sprintf("from|%v|%d", arr, l), false)
	}
}

// ---------- stream reads on malformed data ----------

func genRop(r *vx.Rng) rop {
	l := vx.Pick(r, goodLpts)
	switch r.Intn(8) {
	case 0:
		return ropT(r.Intn(12))
	case 1:
		return ropBytes(vx.Pick(r, []int64{0, 1, 3, 8, 100, 4096, 4097, 1 << 30, 1 << 62, -1, -5}))
	case 2, 3:
		return ropBytesSize(l)
	case 4:
		return ropObject(vx.Pick(r, []int64{0, 8, 32, 5, -1, 1 << 40}), cbKind{kind: r.Intn(4), k: r.Intn(6)})
	case 5:
		return ropObjectSize(l, cbKind{kind: r.Intn(4), k: r.Intn(6)})
	case 6:
		return ropCollection(l, 1+r.Intn(3))
	}
	return ropPeek(l)
}

func (g *gen) judgeRead(o rop, kind string, data []byte, what string) readObs {
	if o.seek && kind != "plain" && kind != "custom" {
		kind = "custom"
	}
	if g.allocBroken && o.claimed(data) > 1<<28 {
		g.st.Count("read.skipped-after-alloc-failure")
		return readObs{}
	}
	ob, evs := runRead(o, kind, data, g.r)
	if ob.hung {
		g.hang(map[string]any{"what": what, "data": hexs(data), "op": o.term, "reader": kind, "events": evs})
	}
	desc := map[string]any{"what": what, "data": hexs(data), "op": o.term, "reader": kind, "events": evs}
	g.add(readCaseT(data, evs, o, ob), desc, "read|"+o.kind+"|"+kind+"|"+what+"|"+ob.res[:min(len(ob.res), 14)], kind != "plain" || o.pfx > 0)
	g.st.Count("read." + what)
	g.st.Count("read.reader." + kind)
	switch {
	case ob.panicked:
		g.st.Count("read.outcome.panic")
		g.fail(map[string]any{"sig": "stream-panic", "data": hexs(data), "op": o.term, "reader": kind, "panic": fmt.Sprint(ob.pv)})
	case ob.consumed > len(data):
		g.fail(map[string]any{"sig": "stream-consumed-gt-len", "data": hexs(data), "op": o.term, "reader": kind})
	case ob.alloc > streamAllocBound(len(data), o.claimed(data)):
		// more than min(claimed length, 1 MiB) + 64 KiB + 64 bytes per byte of input: the allocation follows a length
		// argument / length prefix that the data does not back
		g.allocBroken = true
		g.fail(map[string]any{"sig": "stream-alloc", "data": hexs(data), "op": o.term, "reader": kind, "alloc": ob.alloc,
			"claimed": o.claimed(data), "bound": streamAllocBound(len(data), o.claimed(data))})
	case o.pfx == 8 && len(data) >= 8 && prefixValue(data[:8]) > math.MaxInt64 && ob.err == nil:
		// a uint64 size prefix >= 2^63 does not fit int: every helper that reads one has to report an error
		// (before c8478d2: ReadCollection = empty collection, PeekSize = negative size)
		g.fail(map[string]any{"sig": "stream-size-prefix-overflow-accepted", "data": hexs(data), "op": o.term, "reader": kind, "result": ob.res})
	case ob.iters > len(data)+1:
		g.fail(map[string]any{"sig": "stream-iterations", "data": hexs(data), "op": o.term, "reader": kind, "iterations": ob.iters})
	}
	if !ob.panicked {
		if ob.err != nil {
			g.st.Count("read.outcome." + classify(ob.err))
		} else {
			g.st.Count("read.outcome.ok")
		}
	}
	return ob
}

// ---------- sub-command prims (C02) ----------

func (g *gen) directedPrims() {
	id := func(e elem) []elem { return []elem{e} }
	// D02a regression: 32-bit prefix 0x0fffffff, 2 bytes of data, maxLen 10 (allocated 256 MiB before 2366906)
	d02a := []byte{0xff, 0xff, 0xff, 0x0f, 1, 2}
	for _, str := range []bool{false, true} {
		p := id(varElem(g.r, str, serializer.SeriLengthPrefixTypeAsUint32, nil, 0, 10, true))
		g.judgeDes(d02a, p, runDes(d02a, p), "directed-D02a")
		p = id(varElem(g.r, str, serializer.SeriLengthPrefixTypeAsUint32, nil, 0, 0, true))
		g.judgeDes(d02a, p, runDes(d02a, p), "directed-D02a-nomax")
		p = id(varElem(g.r, str, serializer.SeriLengthPrefixTypeAsUint64, nil, 0, 0, true))
		big := []byte{0xff, 0xff, 0xff, 0xff, 0xff, 0xff, 0xff, 0xff, 1}
		g.judgeDes(big, p, runDes(big, p), "directed-u64-prefix")
		big2 := []byte{0xff, 0xff, 0xff, 0xff, 0xff, 0xff, 0xff, 0x7f, 1}
		g.judgeDes(big2, p, runDes(big2, p), "directed-u64-prefix")
	}
	// the length error wins over missing data, the offset stays behind the prefix
	p := []elem{varElem(g.r, false, serializer.SeriLengthPrefixTypeAsByte, nil, 3, 0, true), numElem(0, big.NewInt(0))}
	g.judgeDes([]byte{2, 9, 9, 7}, p, runDes([]byte{2, 9, 9, 7}, p), "directed-minlen")
	// configuration error: unknown length prefix type panics (programmer error, not input)
	p = id(varElem(g.r, false, badLpt, nil, 0, 0, true))
	g.judgeDes([]byte{1, 2}, p, runDes([]byte{1, 2}, p), "directed-badlpt")
	// D02c regressions on the stream side
	g.judgeRead(ropBytesSize(serializer.SeriLengthPrefixTypeAsUint64), "plain", []byte{0xff, 0xff, 0xff, 0xff, 0xff, 0xff, 0xff, 0xff}, "directed-D02c")
	g.judgeRead(ropBytesSize(serializer.SeriLengthPrefixTypeAsUint32), "plain", d02a, "directed-D02c")
	g.judgeRead(ropObjectSize(serializer.SeriLengthPrefixTypeAsUint64, cbKind{kind: 0}), "plain", []byte{0, 0, 0, 0, 0, 0, 0, 0x80, 1}, "directed-D02c")
	g.judgeRead(ropBytes(1<<62), "onebyte", []byte{1, 2, 3}, "directed-D02c")
	g.directedHeaders()
	g.directedThreshold()
	// D02d (known finding): zero-size items iterate prefix-many times. Go side only (the record of 65535 items is capped).
	{
		e := seqElem(serializer.SeriLengthPrefixTypeAsUint16, itemKind{kind: 0, k: 0}, nil, false, 0, 0, 0)
		o := runDes([]byte{0xff, 0xff}, id(e))
		if o.seqIters > 3 {
			g.st.Known = append(g.st.Known, sigD02d)
		}
		g.st.Count("directed.D02d.iterations." + fmt.Sprint(o.seqIters))
		ob, _ := runRead(ropCollection(serializer.SeriLengthPrefixTypeAsUint16, 0), "plain", []byte{0xff, 0xff}, g.r)
		g.st.Count("directed.D02d.collection-iterations." + fmt.Sprint(ob.iters))
	}
}

// directedThreshold: the allocation scheme of ReadBytes and the sizeToInt guard of readFixedSize (c8478d2).
func (g *gen) directedThreshold() {
	const mib = 1 << 20
	l32, l64 := serializer.SeriLengthPrefixTypeAsUint32, serializer.SeriLengthPrefixTypeAsUint64
	// a length at / around / far above the 1 MiB threshold that no data backs: at most min(length, 1 MiB) up front
	for _, n := range []int64{mib - 1, mib, mib + 1, 2 * mib, 1 << 30, math.MaxInt64} {
		for _, data := range [][]byte{{}, {1, 2, 3}} {
			for _, kind := range []string{"plain", "onebyte", "custom"} {
				g.judgeRead(ropBytes(n), kind, data, "directed-threshold-unbacked")
			}
		}
	}
	// ... backed by all of the data (+ 2 bytes that must stay unread); 2^20-1 / 2^21+5 with all data: stream part (C01);
	// short by one byte = the first member of the truncated family below
	withTail := func(n int) []byte { return append(patBytes(n), 0xee, 0xef) }
	g.judgeRead(ropBytes(mib), "half", withTail(mib), "directed-threshold-full")
	g.judgeRead(ropBytes(mib+1), "bigscript", withTail(mib+1), "directed-threshold-full")
	// claim >> data >= 1 MiB, then EOF: the first buffer fills, so the growth policy decides what is allocated. The data
	// justifies buffers of 1, 2 (, 4) MiB; the claim (up to 2^28) justifies nothing beyond the first MiB.
	u64 := cbKind{kind: 0}
	g.truncated(ropBytes(1<<28), 0, mib, 0, "plain", "directed-truncated-large")
	g.truncated(ropBytesSize(l32), 4, mib+1, 1<<28-1, "half", "directed-truncated-large")
	g.truncated(ropBytesSize(l64), 8, mib+4096, 1<<26, "chunks64k", "directed-truncated-large")
	g.truncated(ropObjectSize(l32, u64), 4, 2*mib+5, 1<<28, "dataerr", "directed-truncated-large")
	g.truncated(ropBytes(1<<28), 0, 3*mib, 0, "chunks64k", "directed-truncated-large")
	// ... and one random member of the family per run
	{
		n := vx.Pick(g.r, []int{mib, mib + 1, mib + 4096, 2*mib + 5, 3 * mib})
		claim := vx.Pick(g.r, []uint64{1 << 22, 1<<24 + 1, 1 << 26, 1<<28 - 1, 1 << 28})
		kind := vx.Pick(g.r, []string{"plain", "half", "chunks64k", "dataerr"})
		switch g.r.Intn(5) {
		case 0:
			g.truncated(ropBytes(int64(claim)), 0, n, 0, kind, "random-truncated-large")
		case 1:
			g.truncated(ropBytesSize(l32), 4, n, claim, kind, "random-truncated-large")
		case 2:
			g.truncated(ropBytesSize(l64), 8, n, claim, kind, "random-truncated-large")
		case 3:
			g.truncated(ropObjectSize(l32, u64), 4, n, claim, kind, "random-truncated-large")
		default:
			g.truncated(ropObjectSize(l64, u64), 8, n, claim, kind, "random-truncated-large")
		}
	}
	// size prefixes at the int boundary: 2^63-1 is a size (nothing backs it), 2^63 and 2^64-1 are errors for every helper
	for _, pv := range []uint64{1<<63 - 1, 1 << 63, math.MaxUint64} {
		for _, tail := range [][]byte{{}, {1, 2, 3}} {
			data := append(binary.LittleEndian.AppendUint64(nil, pv), tail...)
			for _, o := range []rop{ropPeek(l64), ropCollection(l64, 1), ropBytesSize(l64),
				ropObjectSize(l64, cbKind{kind: 0}), ropObjectSize(l64, cbKind{kind: 2, k: 2})} {
				for _, kind := range []string{"plain", "half", "custom"} {
					g.judgeRead(o, kind, data, "directed-size-prefix")
				}
			}
		}
	}
}

// truncated judges o on a little-endian prefix of pfx bytes with value claim (none for pfx = 0: the claim is o's length
// argument) followed by n pattern bytes and then EOF.
func (g *gen) truncated(o rop, pfx, n int, claim uint64, kind, what string) {
	data := binary.LittleEndian.AppendUint64(nil, claim)[:pfx]
	g.judgeRead(o, kind, append(data, patBytes(n)...), what)
}

func (g *gen) prims(n int) {
	g.directedPrims()
	for i := 0; i < n; i++ {
		prog := g.genProg(true)
		input, err, panicked := serialize(prog)
		if panicked || err != nil {
			// the write side rejected the program (bad config, range): still decode short random input with it
			input = rbytes(g.r, g.r.Intn(6))
		}
		g.judgeDes(input, prog, runDes(input, prog), "valid")
		muts := g.mutations(input, prog)
		for _, k := range sortedKeys(muts) {
			name := strings.TrimRight(k, "0123456789")
			g.judgeDes(muts[k], prog, runDes(muts[k], prog), name)
		}
	}
	// stream helpers on malformed data
	for i := 0; i < n; i++ {
		o := genRop(g.r)
		var data []byte
		switch g.r.Intn(4) {
		case 0:
			data = make([]byte, g.r.Intn(9))
			for j := range data {
				data[j] = vx.Pick(g.r, alphabet)
			}
		case 1: // a prefix 2^k-1 (or nearby) followed by a few bytes
			data = make([]byte, max(o.pfx, 1))
			for j := range data {
				data[j] = 0xff
			}
			data[len(data)-1] = byte(vx.Pick(g.r, []int{0xff, 0x7f, 0x80, 0x00, 0x01}))
			data = append(data, rbytes(g.r, g.r.Intn(12))...)
		case 2: // a plausible small prefix and enough / not enough data
			data = make([]byte, max(o.pfx, 1))
			data[0] = byte(g.r.Intn(12))
			data = append(data, rbytes(g.r, g.r.Intn(40))...)
		default:
			data = rbytes(g.r, g.r.Intn(48))
		}
		if o.zero {
			continue
		}
		for _, kind := range []string{"plain", vx.Pick(g.r, readerKinds[1:]), "custom"} {
			g.judgeRead(o, kind, data, "malformed")
		}
	}
	g.omapCases(n / 4)
	g.fromBytesCases(40)
}

// ---------- sub-command stream (C01) ----------

func (g *gen) roundtripProg() {
	prog := g.genProg(false)
	sops, dops, wants, kinds := progTerms(prog)
	out, err, panicked := serialize(prog)
	g.add(joinT("CSer", vx.List(sops), resBytesT(out, err, panicked)), map[string]any{"what": "ser", "ops": sops}, "ser|"+kinds+classify(err), progNontrivial(prog))
	g.st.Count("ser")
	if panicked {
		g.fail(map[string]any{"sig": "ser-panic", "ops": sops})
		return
	}
	if err != nil {
		g.st.Count("ser.err." + classify(err))
		return
	}
	o := runDes(out, prog)
	g.add(desCaseT(out, dops, o), map[string]any{"what": "des-of-ser", "input": hexs(out), "ops": dops}, "desser|"+kinds+classify(o.err), progNontrivial(prog))
	g.st.Count("des-of-ser")
	// round-trip oracle: every pair whose write succeeded reads back the written value, all bytes consumed
	expectOK := true
	for _, w := range wants {
		if w == "" {
			expectOK = false
		}
	}
	if !expectOK {
		g.st.Count("des-of-ser.no-pair-expectation")
		return
	}
	bad := o.panicked || o.err != nil || o.off != len(out) || len(o.outs) != len(wants)
	if !bad {
		for i := range wants {
			if wants[i] != o.outs[i] {
				bad = true
			}
		}
	}
	if bad {
		g.fail(map[string]any{"sig": "serdes-roundtrip", "ops": sops, "bytes": hexs(out), "got": o.outs, "want": wants, "err": fmt.Sprint(o.err)})
	}
}

func (g *gen) serErrorCases() {
	mk := func(sop string, f func(s *serializer.Serializer)) {
		e := elem{kind: "sererr", sops: []string{sop}, ser: f}
		out, err, panicked := serialize([]elem{e})
		g.add(joinT("CSer", vx.List(e.sops), resBytesT(out, err, panicked)), map[string]any{"what": "ser-error", "ops": e.sops}, "sererr|"+sop[:min(len(sop), 24)], true)
	}
	long := make([]byte, 300)
	mk(joinT("SVar", "L8", bytesT(long), "0%Z", "0%Z"), func(s *serializer.Serializer) {
		s.WriteVariableByteSlice(long, serializer.SeriLengthPrefixTypeAsByte, idErr, 0, 0)
	})
	mk(joinT("SString", "L8", bytesT(long), "0%Z", "0%Z"), func(s *serializer.Serializer) {
		s.WriteString(string(long), serializer.SeriLengthPrefixTypeAsByte, idErr, 0, 0)
	})
	mk(joinT("SVar", "L16", bytesT(long), "0%Z", "299%Z"), func(s *serializer.Serializer) {
		s.WriteVariableByteSlice(long, serializer.SeriLengthPrefixTypeAsUint16, idErr, 0, 299)
	})
	mk(joinT("SVar", "L16", bytesT(long), "301%Z", "0%Z"), func(s *serializer.Serializer) {
		s.WriteVariableByteSlice(long, serializer.SeriLengthPrefixTypeAsUint16, idErr, 301, 0)
	})
	mk(joinT("SString", "L32", bytesT(long[:5]), "6%Z", "0%Z"), func(s *serializer.Serializer) {
		s.WriteString(string(long[:5]), serializer.SeriLengthPrefixTypeAsUint32, idErr, 6, 0)
	})
	mk(joinT("SString", "L32", bytesT(long[:5]), "0%Z", "4%Z"), func(s *serializer.Serializer) {
		s.WriteString(string(long[:5]), serializer.SeriLengthPrefixTypeAsUint32, idErr, 0, 4)
	})
	mk(joinT("SVar", "LBad", bytesT(long[:5]), "0%Z", "0%Z"), func(s *serializer.Serializer) {
		s.WriteVariableByteSlice(long[:5], badLpt, idErr, 0, 0)
	})
	mk("(SU256 None)", func(s *serializer.Serializer) { s.WriteUint256(nil, idErr) })
	mk("(SU256 (Some (-1)%Z))", func(s *serializer.Serializer) { s.WriteUint256(big.NewInt(-1), idErr) })
	two256 := new(big.Int).Lsh(big.NewInt(1), 256)
	mk("(SU256 (Some "+zbig(two256)+"))", func(s *serializer.Serializer) { s.WriteUint256(two256, idErr) })
	// sticky error: later writes are skipped
	e := []elem{{kind: "x", sops: []string{"(SU256 None)", "(SBool true)"}, ser: func(s *serializer.Serializer) {
		s.WriteUint256(nil, idErr)
		s.WriteBool(true, idErr)
	}}}
	out, err, panicked := serialize(e)
	g.add(joinT("CSer", vx.List(e[0].sops), resBytesT(out, err, panicked)), map[string]any{"what": "ser-error-sticky"}, "sererr|sticky", true)
}

// streamPair: the write helper into a ByteBuffer (bytes compared with the model), then its read helper on what was
// written. atEnd = the helper's write is the last one of the stream and the reader sees nothing behind it: no sentinel
// byte and no tail, so a helper that leaves part of its output to a later write (a skipped placeholder, a deferred
// flush) or a reader that needs one byte too many shows; otherwise a sentinel makes the final write position visible
// and a tail must stay unread.
func (g *gen) streamPair(o wop, kinds []string) { g.streamPairAt(o, kinds, false) }

func (g *gen) streamPairAt(o wop, kinds []string, atEnd bool) {
	r := g.r
	pre := rbytes(r, r.Intn(4))
	out, err, panicked := runWrite(pre, o, !atEnd)
	ctor, what := "CWrite", "write"
	if atEnd {
		ctor, what = "CWriteEnd", "write-at-end"
	}
	g.add(joinT(ctor, bytesT(pre), o.term, resBytesT(out, err, panicked)), map[string]any{"what": what, "op": o.term, "pre": hexs(pre)},
		what+"|"+o.kind+"|"+classify(err), true)
	g.st.Count(what + "." + o.kind)
	if panicked {
		g.fail(map[string]any{"sig": "write-panic", "op": o.term})
		return
	}
	if err != nil || o.read.run == nil {
		g.st.Count("write.err")
		return
	}
	var written, tail []byte
	if atEnd {
		if len(out) < len(pre) { // the stream lost bytes that were there before the helper ran
			g.fail(map[string]any{"sig": "stream-write-truncates", "write": o.term, "pre": hexs(pre), "bytes": hexs(out)})
			return
		}
		written = out[len(pre):]
	} else {
		written = out[len(pre) : len(out)-1] // without the sentinel
		tail = rbytes(r, r.Intn(4))
	}
	data := append(exact(written), tail...)
	for _, kind := range kinds {
		if o.read.zero && len(data) > 0 && false {
			continue
		}
		if o.read.seek && kind != "plain" && kind != "custom" {
			continue
		}
		ob, evs := runRead(o.read, kind, data, r)
		if ob.hung {
			g.hang(map[string]any{"what": "read-of-" + what, "data": hexs(data), "op": o.read.term, "write": o.term, "reader": kind, "events": evs})
		}
		g.add(readCaseT(data, evs, o.read, ob), map[string]any{"what": "read-of-" + what, "data": hexs(data), "op": o.read.term, "reader": kind, "events": evs},
			"rw|"+o.kind+"|"+kind+"|"+ob.res[:min(len(ob.res), 10)], kind != "plain")
		g.st.Count("read-of-write." + kind)
		if o.want == "" {
			continue
		}
		faulty := kind == "timeout" || strings.Contains(evs, "Fault")
		switch {
		case ob.panicked:
			g.fail(map[string]any{"sig": "stream-panic", "op": o.read.term, "reader": kind, "data": hexs(data)})
		case ob.err != nil && !(faulty && classify(ob.err) == "EFault"):
			g.fail(map[string]any{"sig": "stream-roundtrip", "op": o.read.term, "write": o.term, "at_end_of_stream": atEnd, "written": hexs(written), "reader": kind, "events": evs, "err": fmt.Sprint(ob.err)})
		case ob.err == nil && (ob.val != o.want || ob.consumed != len(written)):
			g.fail(map[string]any{"sig": "stream-roundtrip", "op": o.read.term, "write": o.term, "at_end_of_stream": atEnd, "written": hexs(written), "reader": kind, "events": evs, "got": ob.val, "want": o.want, "consumed": ob.consumed})
		}
		if ob.err != nil {
			g.st.Count("read-of-write.fault")
		}
	}
}

func (g *gen) directedStream() {
	// D01c regression: 11 bytes through a reader that hands out one byte per Read
	data := []byte("hello world")
	for _, kind := range readerKinds {
		o := wop{kind: "bytes", term: joinT("WBytes", bytesT(data)), want: joinT("SVBytes", bytesT(data)), read: ropBytes(int64(len(data))),
			run: func(w *stream.ByteBuffer) error { return stream.WriteBytes(w, data) }}
		g.streamPair(o, []string{kind})
	}
	// a few KiB (the chunk boundaries of the first D02c repair; since c8478d2 one exact buffer and one io.ReadFull)
	for i, n := range []int{4096, 4097, 8200} {
		big := rbytes(g.r, n)
		l := []serializer.SeriLengthPrefixType{serializer.SeriLengthPrefixTypeAsUint16, serializer.SeriLengthPrefixTypeAsUint32, serializer.SeriLengthPrefixTypeAsUint64}[i]
		o := wop{kind: "bytessize", term: joinT("WBytesSize", lptT(l), bytesT(big)), want: joinT("SVBytes", bytesT(big)), read: ropBytesSize(l),
			run: func(w *stream.ByteBuffer) error { return stream.WriteBytesWithSize(w, big, l) }}
		g.streamPair(o, []string{[]string{"plain", "half", "dataerr"}[i], "custom"})
	}
	big := rbytes(g.r, 4100)
	o := wop{kind: "bytes", term: joinT("WBytes", bytesT(big)), want: joinT("SVBytes", bytesT(big)), read: ropBytes(4100),
		run: func(w *stream.ByteBuffer) error { return stream.WriteBytes(w, big) }}
	g.streamPair(o, []string{"onebyte"})
	// ReadBytes at the 1 MiB threshold of c8478d2 (exact buffer at it, a doubling buffer above: 2^20+1 grows once,
	// 2^21+5 twice), read back under readers that split the reads differently
	const mib = 1 << 20
	for i, n := range []int{mib, mib + 1, 2*mib + 5} {
		data := patBytes(n)
		l := []serializer.SeriLengthPrefixType{serializer.SeriLengthPrefixTypeAsUint32, serializer.SeriLengthPrefixTypeAsUint64, 0}[i]
		var o wop
		if l == 0 {
			o = wop{kind: "bytes", term: joinT("WBytes", bytesT(data)), want: joinT("SVBytes", bytesT(data)), read: ropBytes(int64(n)),
				run: func(w *stream.ByteBuffer) error { return stream.WriteBytes(w, data) }}
		} else {
			o = wop{kind: "bytessize", term: joinT("WBytesSize", lptT(l), bytesT(data)), want: joinT("SVBytes", bytesT(data)), read: ropBytesSize(l),
				run: func(w *stream.ByteBuffer) error { return stream.WriteBytesWithSize(w, data, l) }}
		}
		g.streamPair(o, [][]string{{"half"}, {"bigscript"}, {"dataerr"}}[i])
	}
}

// directedBoundary: every Write*/Read* pair with boundary sizes 0 and 1, for every length-prefix width, once followed
// by further writes / data and once as the very last thing of the stream.
func (g *gen) directedBoundary() {
	kinds := []string{"plain", "onebyte", "custom"}
	for _, atEnd := range []bool{true, false} {
		for _, l := range goodLpts {
			for n := 0; n <= 1; n++ {
				data := rbytes(g.r, n)
				g.streamPairAt(wop{kind: "bytessize", term: joinT("WBytesSize", lptT(l), bytesT(data)), want: joinT("SVBytes", bytesT(data)), read: ropBytesSize(l),
					run: func(w *stream.ByteBuffer) error { return stream.WriteBytesWithSize(w, data, l) }}, kinds, atEnd)
				g.streamPairAt(wop{kind: "objectsizeraw", term: joinT("WObjectSize", lptT(l), joinT("WcbRaw", bytesT(data))), want: joinT("SVBytes", bytesT(data)), read: ropObjectSize(l, cbKind{kind: 2, k: n}),
					run: func(w *stream.ByteBuffer) error {
						return stream.WriteObjectWithSize(w, data, l, func(b []byte) ([]byte, error) { return b, nil })
					}}, kinds, atEnd)
				// collections of n elements of k bytes (k = 0 only for the empty collection: zero-size items are D02d)
				for k := 1 - n; k <= 2; k++ {
					var elems [][]byte
					for i := 0; i < n; i++ {
						elems = append(elems, rbytes(g.r, k))
					}
					g.streamPairAt(wop{kind: "collection", term: joinT("WCollection", lptT(l), listOfBytes(elems), vx.Z(int64(n))), want: joinT("SVList", listOfBytes(elems)), read: ropCollection(l, k),
						run: func(w *stream.ByteBuffer) error {
							return stream.WriteCollection(w, l, func() (int, error) {
								for _, e := range elems {
									if err := stream.WriteBytes(w, e); err != nil {
										return 0, err
									}
								}
								return n, nil
							})
						}}, kinds, atEnd)
				}
			}
		}
		for n := 0; n <= 1; n++ {
			data := rbytes(g.r, n)
			g.streamPairAt(wop{kind: "bytes", term: joinT("WBytes", bytesT(data)), want: joinT("SVBytes", bytesT(data)), read: ropBytes(int64(n)),
				run: func(w *stream.ByteBuffer) error { return stream.WriteBytes(w, data) }}, kinds, atEnd)
		}
		for t := 0; t < 12; t++ {
			o := genWopT(g.r, t)
			g.streamPairAt(o, kinds, atEnd)
		}
		v := rnum(g.r, 3)
		g.streamPairAt(wop{kind: "objectu64", term: joinT("WObject", joinT("WcbU64", zbig(v))), want: joinT("SVNum", zbig(v)), read: ropObject(8, cbKind{kind: 0}),
			run: func(w *stream.ByteBuffer) error { return stream.WriteObject(w, v.Uint64(), typeutils.Uint64ToBytes) }}, kinds, atEnd)
	}
}

func (g *gen) streamPart(n int) {
	g.directedPayloadFinding()
	g.directedStream()
	g.directedBoundary()
	g.serErrorCases()
	for i := 0; i < n; i++ {
		g.roundtripProg()
	}
	for i := 0; i < n; i++ {
		g.streamPairAt(genWop(g.r), readerKinds, i%2 == 1)
	}
}

func main() {
	if len(os.Args) > 1 && os.Args[1] == "probe" {
		probe()
		return
	}
	if len(os.Args) < 2 || (os.Args[1] != "prims" && os.Args[1] != "stream") {
		vx.Die("usage: hx-c02prims prims|stream|probe [--n N] --seed S --out cases.v --stats stats.json")
	}
	fs := flag.NewFlagSet(os.Args[1], flag.ExitOnError)
	n := fs.Int("n", 200, "number of generated programs / operations")
	seed := fs.Uint64("seed", 1, "seed")
	out := fs.String("out", "cases.v", "cases file")
	stats := fs.String("stats", "stats.json", "stats file")
	_ = fs.Parse(os.Args[2:])

	g := &gen{r: vx.NewRng(*seed*0x2545F4914F6CDD1D + 11).Fork(), part: os.Args[1], out: *out, stats: *stats} // NewRng(s+1) is NewRng(s) shifted by one draw: decorrelate
	g.st = vx.NewStats("distinct (input bytes, operations, reader script, observation); non-trivial = program of >= 2 primitives or a length-prefixed/sequence primitive, stream op with a length prefix or under a non-trivial reader")
	g.cf = &vx.CasesFile{
		Header: "From Coq Require Import ZArith NArith List.\nFrom Verif.C02_Prims Require Import Model Stream Corr.\nImport ListNotations.\n",
		Type:   "case",
		Footer: "Definition M := Eval vm_compute in mismatches cases.\nPrint M.",
	}
	if os.Args[1] == "prims" {
		g.prims(*n)
	} else {
		g.streamPart(*n)
	}
	g.finish()
}
