package main

import (
	"errors"
	"fmt"
	"sort"

	"github.com/iotaledger/hive.go/core/memstorage"
	"github.com/iotaledger/hive.go/ds/onchangemap"
	"github.com/iotaledger/hive.go/ds/shrinkingmap"
	"github.com/iotaledger/hive.go/runtime/options"

	"verif/harness/vx"
)

// ---------------------------------------------------------------- IndexedStorage

type isOp struct {
	K      string `json:"k"` // get evict foreach clear sset sget sdel
	Idx    int    `json:"idx,omitempty"`
	Create int    `json:"create,omitempty"` // 0 = argument absent, 1 = false, 2 = true
	Sid    int    `json:"sid,omitempty"`
	Key    int    `json:"key,omitempty"`
	Val    int    `json:"val,omitempty"`
}

func (o isOp) coq() string {
	switch o.K {
	case "get":
		c := "None"
		if o.Create == 1 {
			c = "(Some false)"
		} else if o.Create == 2 {
			c = "(Some true)"
		}
		return fmt.Sprintf("IS.Get %s %s", vx.Nat(o.Idx), c)
	case "evict":
		return "IS.Evict " + vx.Nat(o.Idx)
	case "foreach":
		return "IS.ForEach"
	case "clear":
		return "IS.Clear"
	case "sset":
		return fmt.Sprintf("IS.SSet %s %s %s", vx.Nat(o.Sid), vx.Nat(o.Key), vx.Nat(o.Val))
	case "sget":
		return fmt.Sprintf("IS.SGet %s %s", vx.Nat(o.Sid), vx.Nat(o.Key))
	}
	return fmt.Sprintf("IS.SDel %s %s", vx.Nat(o.Sid), vx.Nat(o.Key))
}

type isIdx uint32

func isRun(h []isOp) result {
	s := memstorage.NewIndexedStorage[isIdx, int, int]()
	type stor = *shrinkingmap.ShrinkingMap[int, int]
	var handles []stor // storage ids in order of first appearance
	sidOf := func(p stor) int {
		for i, q := range handles {
			if p == q {
				return i
			}
		}
		handles = append(handles, p)
		return len(handles) - 1
	}
	ref := map[int]stor{} // reference: plain map index -> storage
	obs := make([]string, len(h))
	fail := ""
	recreated := false
	gone := map[int]bool{}
	sidOut := func(p stor) string {
		if p == nil {
			return "IS.OSid None"
		}
		return "IS.OSid (Some " + vx.Nat(sidOf(p)) + ")"
	}
	entries := func(keys []isIdx, vals []stor) string {
		ps := make([][2]int, len(keys))
		for i := range keys {
			ps[i] = [2]int{int(keys[i]), sidOf(vals[i])}
		}
		sort.Slice(ps, func(a, b int) bool { return ps[a][0] < ps[b][0] })
		return "IS.OEntries " + pairList(ps)
	}
	for i, o := range h {
		obs[i] = "IS.ONone"
		switch o.K {
		case "get":
			var p stor
			switch o.Create {
			case 0:
				p = s.Get(isIdx(o.Idx))
			case 1:
				p = s.Get(isIdx(o.Idx), false)
			default:
				p = s.Get(isIdx(o.Idx), true)
			}
			if o.Create == 2 && ref[o.Idx] == nil {
				if p == nil || sidOf(p) != len(handles)-1 {
					if fail == "" {
						fail = fmt.Sprintf("op %d: Get(create) on a missing index did not return a fresh storage", i)
					}
				} else {
					ref[o.Idx] = p
					if gone[o.Idx] {
						recreated = true
					}
				}
			} else if p != ref[o.Idx] && fail == "" {
				fail = fmt.Sprintf("op %d: Get(%d) returned a storage different from the one stored", i, o.Idx)
			}
			obs[i] = sidOut(p)
		case "evict":
			p := s.Evict(isIdx(o.Idx))
			if p != ref[o.Idx] && fail == "" {
				fail = fmt.Sprintf("op %d: Evict(%d) returned a storage different from the one stored", i, o.Idx)
			}
			if p != nil {
				gone[o.Idx] = true
			}
			delete(ref, o.Idx)
			obs[i] = sidOut(p)
		case "foreach", "clear":
			var ks []isIdx
			var vs []stor
			if o.K == "foreach" {
				s.ForEach(func(k isIdx, v stor) { ks = append(ks, k); vs = append(vs, v) })
			} else {
				ks, vs = s.Clear()
			}
			if len(ks) != len(ref) || len(vs) != len(ks) {
				if fail == "" {
					fail = fmt.Sprintf("op %d: %s listed %d keys / %d storages, %d are stored", i, o.K, len(ks), len(vs), len(ref))
				}
			} else {
				for j := range ks {
					if ref[int(ks[j])] != vs[j] && fail == "" {
						fail = fmt.Sprintf("op %d: %s paired index %d with a foreign storage", i, o.K, ks[j])
					}
				}
			}
			if len(vs) == len(ks) {
				obs[i] = entries(ks, vs)
			} else {
				obs[i] = "IS.OEntries []"
			}
			if o.K == "clear" {
				for k := range ref {
					gone[k] = true
				}
				ref = map[int]stor{}
			}
		case "sset":
			if o.Sid < len(handles) {
				handles[o.Sid].Set(o.Key, o.Val)
			}
		case "sget":
			if o.Sid < len(handles) {
				v, ok := handles[o.Sid].Get(o.Key)
				obs[i] = "IS.OVal " + optNat(ok, v)
			} else {
				obs[i] = "IS.OVal None"
			}
		case "sdel":
			if o.Sid < len(handles) {
				obs[i] = "IS.OBool " + vx.Bool(handles[o.Sid].Delete(o.Key))
			} else {
				obs[i] = "IS.OBool false"
			}
		}
	}
	return result{
		term: fmt.Sprintf("CIS %s %s", vx.ListOf(h, isOp.coq), vx.List(obs)),
		kind: "is", desc: map[string]any{"history": h},
		key: join(mapS(h, isOp.coq)), nontriv: recreated, fail: fail,
	}
}

func isDirected() []result {
	return []result{
		isRun([]isOp{{K: "get", Idx: 1}, {K: "get", Idx: 1, Create: 1}, {K: "get", Idx: 1, Create: 2}, {K: "sset", Sid: 0, Key: 1, Val: 7}, {K: "get", Idx: 1},
			{K: "evict", Idx: 1}, {K: "evict", Idx: 1}, {K: "get", Idx: 1, Create: 2}, {K: "sget", Sid: 0, Key: 1}, {K: "sget", Sid: 1, Key: 1},
			{K: "get", Idx: 0, Create: 2}, {K: "foreach"}, {K: "clear"}, {K: "foreach"}, {K: "clear"}, {K: "get", Idx: 0, Create: 2}, {K: "sdel", Sid: 0, Key: 1}, {K: "sdel", Sid: 0, Key: 1}}),
	}
}

func isRandom(r *vx.Rng, l int) result {
	u := 2 + r.Intn(4)
	h := make([]isOp, l)
	created := 0
	for i := range h {
		k := r.Intn(100)
		switch {
		case k < 38:
			c := r.Intn(3)
			if r.Chance(1, 2) {
				c = 2
			}
			h[i] = isOp{K: "get", Idx: r.Intn(u), Create: c}
			if c == 2 {
				created++
			}
		case k < 55:
			h[i] = isOp{K: "evict", Idx: r.Intn(u)}
		case k < 65:
			h[i] = isOp{K: "foreach"}
		case k < 70:
			h[i] = isOp{K: "clear"}
		default:
			sid := r.Intn(created + 1) // may not exist (then a no-op on both sides)
			switch r.Intn(3) {
			case 0:
				h[i] = isOp{K: "sset", Sid: sid, Key: r.Intn(3), Val: r.Intn(4)}
			case 1:
				h[i] = isOp{K: "sget", Sid: sid, Key: r.Intn(3)}
			default:
				h[i] = isOp{K: "sdel", Sid: sid, Key: r.Intn(3)}
			}
		}
	}
	return isRun(h)
}

// ---------------------------------------------------------------- OnChangeMap

type ocID int

func (i ocID) Key() int       { return int(i) }
func (i ocID) String() string { return fmt.Sprintf("item %d", int(i)) }

type ocItem struct {
	id ocID
	p  int
}

func (i *ocItem) ID() ocID { return i.id }
func (i *ocItem) Clone() onchangemap.Item[int, ocID] {
	return &ocItem{id: i.id, p: i.p}
}

type ocOp struct {
	K     string `json:"k"` // enable exec all get add modify delete
	B     bool   `json:"b,omitempty"`
	ID    int    `json:"id,omitempty"`
	P     int    `json:"p,omitempty"`
	Set   bool   `json:"set,omitempty"` // modify: the callback writes P
	Ret   bool   `json:"ret,omitempty"` // modify: the callback's return value
	FailC bool   `json:"failC,omitempty"`
	FailI bool   `json:"failI,omitempty"`
}

func (o ocOp) coq() string {
	switch o.K {
	case "enable":
		return "OC.Enable " + vx.Bool(o.B)
	case "exec":
		return "OC.ExecChanged " + vx.Bool(o.FailC)
	case "all":
		return "OC.All"
	case "get":
		return "OC.Get " + vx.Nat(o.ID)
	case "add":
		return fmt.Sprintf("OC.Add %s %s %s %s", vx.Nat(o.ID), vx.Nat(o.P), vx.Bool(o.FailC), vx.Bool(o.FailI))
	case "modify":
		return fmt.Sprintf("OC.Modify %s %s %s %s %s", vx.Nat(o.ID), optNat(o.Set, o.P), vx.Bool(o.Ret), vx.Bool(o.FailC), vx.Bool(o.FailI))
	}
	return fmt.Sprintf("OC.Delete %s %s %s", vx.Nat(o.ID), vx.Bool(o.FailC), vx.Bool(o.FailI))
}

var errOcChanged = errors.New("changed callback failed")
var errOcItem = errors.New("item callback failed")

func ocErr(err error) string {
	switch {
	case err == nil:
		return "OC.Ok"
	case errors.Is(err, errOcChanged):
		return "OC.ErrChangedCb"
	case errors.Is(err, errOcItem):
		return "OC.ErrItemCb"
	}
	return "OC.ErrKey"
}

func ocItems(items []*ocItem) string {
	ps := make([][2]int, len(items))
	for i, it := range items {
		ps[i] = [2]int{int(it.id), it.p}
	}
	sort.Slice(ps, func(a, b int) bool { return ps[a][0] < ps[b][0] })
	return pairList(ps)
}

func ocRun(mask int, h []ocOp) result {
	var cur ocOp
	var evs []string
	shadow := map[int]int{} // what a subscriber of the three item callbacks reconstructs
	itemCb := func(name string, apply func(*ocItem)) func(*ocItem) error {
		return func(it *ocItem) error {
			evs = append(evs, fmt.Sprintf("OC.Ev%s %s %s", name, vx.Nat(int(it.id)), vx.Nat(it.p)))
			apply(it)
			if cur.FailI {
				return errOcItem
			}
			return nil
		}
	}
	type M = onchangemap.OnChangeMap[int, ocID, *ocItem]
	var opts []options.Option[M]
	if mask&1 != 0 {
		opts = append(opts, onchangemap.WithChangedCallback[int, ocID](func(items []*ocItem) error {
			evs = append(evs, "OC.EvChanged "+ocItems(items))
			if cur.FailC {
				return errOcChanged
			}
			return nil
		}))
	}
	if mask&2 != 0 {
		opts = append(opts, onchangemap.WithItemAddedCallback[int, ocID](itemCb("Added", func(it *ocItem) { shadow[int(it.id)] = it.p })))
	}
	if mask&4 != 0 {
		opts = append(opts, onchangemap.WithItemModifiedCallback[int, ocID](itemCb("Modified", func(it *ocItem) { shadow[int(it.id)] = it.p })))
	}
	if mask&8 != 0 {
		opts = append(opts, onchangemap.WithItemDeletedCallback[int, ocID](itemCb("Deleted", func(it *ocItem) { delete(shadow, int(it.id)) })))
	}
	m := onchangemap.NewOnChangeMap[int, ocID, *ocItem](opts...)
	obs := make([]string, len(h))
	fail := ""
	mirror := mask&14 == 14 // all three item callbacks registered; stays true while every change was reported
	enabled := false
	fired := false
	for i, o := range h {
		cur = o
		evs = nil
		var out string
		switch o.K {
		case "enable":
			m.CallbacksEnabled(o.B)
			enabled = o.B
			out = "OC.OErr OC.Ok"
		case "exec":
			out = "OC.OErr " + ocErr(m.ExecuteChangedCallback())
		case "all":
			all := m.All()
			items := make([]*ocItem, 0, len(all))
			for k, it := range all {
				if int(it.id) != k && fail == "" {
					fail = fmt.Sprintf("op %d: All() maps key %d to item %d", i, k, it.id)
				}
				items = append(items, it)
			}
			out = "OC.OItems " + ocItems(items)
			if mirror {
				same := len(all) == len(shadow)
				for k, it := range all {
					if p, ok := shadow[k]; !ok || p != it.p {
						same = false
					}
				}
				if !same && fail == "" {
					fail = fmt.Sprintf("op %d: the item callbacks reconstruct %v, the map holds %s", i, shadow, ocItems(items))
				}
			}
			for _, it := range all {
				it.p = 99 // the copies are ours: scribbling on them must not reach the map
			}
		case "get":
			it, err := m.Get(ocID(o.ID))
			if it != nil {
				out = fmt.Sprintf("OC.OItem %s %s", optNat(true, it.p), ocErr(err))
				it.p = 99
			} else {
				out = "OC.OItem None " + ocErr(err)
			}
		case "add":
			err := m.Add(&ocItem{id: ocID(o.ID), p: o.P})
			out = "OC.OErr " + ocErr(err)
		case "modify":
			it, err := m.Modify(ocID(o.ID), func(it *ocItem) bool {
				if o.Set {
					it.p = o.P
				}
				return o.Ret
			})
			if it != nil {
				out = fmt.Sprintf("OC.OItem %s %s", optNat(true, it.p), ocErr(err))
				it.p = 99
			} else {
				out = "OC.OItem None " + ocErr(err)
			}
			if o.Set && !o.Ret {
				mirror = false // the user callback changed the item and denied it
			}
		case "delete":
			out = "OC.OErr " + ocErr(m.Delete(ocID(o.ID)))
		}
		if (o.K == "add" || o.K == "modify" || o.K == "delete") && (!enabled || (o.FailC && mask&1 != 0)) {
			mirror = false // a change made while callbacks are off, or cut short by a failing changed callback, is not reported
		}
		for _, e := range evs {
			if len(e) > 12 && e[:12] != "OC.EvChanged" {
				fired = true
			}
		}
		if !enabled && len(evs) > 0 && fail == "" {
			fail = fmt.Sprintf("op %d: a callback fired while callbacks are disabled", i)
		}
		obs[i] = vx.Pair(out, vx.List(evs))
	}
	cfg := fmt.Sprintf("(OC.Build_cfg %s %s %s %s)", vx.Bool(mask&1 != 0), vx.Bool(mask&2 != 0), vx.Bool(mask&4 != 0), vx.Bool(mask&8 != 0))
	return result{
		term: fmt.Sprintf("COC %s %s %s", cfg, vx.ListOf(h, ocOp.coq), vx.List(obs)),
		kind: "oc", desc: map[string]any{"callback_mask": mask, "history": h},
		key: fmt.Sprintf("%d|%s", mask, join(mapS(h, ocOp.coq))), nontriv: fired, fail: fail,
		counts: []string{fmt.Sprintf("oc:mask=%d", mask)},
	}
}

func ocDirected() []result {
	h := []ocOp{{K: "add", ID: 1, P: 1}, {K: "enable", B: true}, {K: "add", ID: 1, P: 2}, {K: "add", ID: 2, P: 2}, {K: "exec"},
		{K: "modify", ID: 2, P: 3, Set: true, Ret: true}, {K: "modify", ID: 2, P: 4, Set: true, Ret: false}, {K: "modify", ID: 3, P: 1, Set: true, Ret: true},
		{K: "get", ID: 2}, {K: "get", ID: 3}, {K: "all"}, {K: "add", ID: 3, P: 0, FailC: true}, {K: "add", ID: 4, P: 0, FailI: true},
		{K: "delete", ID: 1, FailI: true}, {K: "delete", ID: 1}, {K: "delete", ID: 2, FailC: true}, {K: "exec", FailC: true}, {K: "all"}, {K: "enable", B: false}, {K: "delete", ID: 3}, {K: "exec", FailC: true}, {K: "all"}}
	var rs []result
	for _, mask := range []int{15, 0, 14, 1, 5, 10} {
		rs = append(rs, ocRun(mask, h))
	}
	return rs
}

func ocRandom(r *vx.Rng, l int) result {
	mask := r.Intn(16)
	if r.Chance(1, 2) {
		mask = vx.Pick(r, []int{15, 14})
	}
	u := 2 + r.Intn(3)
	faulty := r.Chance(1, 2)
	h := make([]ocOp, 0, l+1)
	if r.Chance(3, 4) {
		h = append(h, ocOp{K: "enable", B: true})
	}
	for len(h) < l {
		k := r.Intn(100)
		fc := faulty && r.Chance(1, 6)
		fi := faulty && r.Chance(1, 6)
		switch {
		case k < 6:
			h = append(h, ocOp{K: "enable", B: r.Chance(2, 3)})
		case k < 12:
			h = append(h, ocOp{K: "exec", FailC: fc})
		case k < 22:
			h = append(h, ocOp{K: "all"})
		case k < 30:
			h = append(h, ocOp{K: "get", ID: r.Intn(u)})
		case k < 55:
			h = append(h, ocOp{K: "add", ID: r.Intn(u), P: r.Intn(4), FailC: fc, FailI: fi})
		case k < 80:
			set := r.Chance(4, 5)
			ret := set
			if r.Chance(1, 8) {
				ret = !ret
			}
			h = append(h, ocOp{K: "modify", ID: r.Intn(u), P: r.Intn(4), Set: set, Ret: ret, FailC: fc, FailI: fi})
		default:
			h = append(h, ocOp{K: "delete", ID: r.Intn(u), FailC: fc, FailI: fi})
		}
	}
	return ocRun(mask, h)
}
