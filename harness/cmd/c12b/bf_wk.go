package main

import (
	"fmt"

	"github.com/iotaledger/hive.go/ds/bytesfilter"
	"github.com/iotaledger/hive.go/ds/walker"

	"verif/harness/vx"
)

// ---------------------------------------------------------------- BytesFilter

type bfID [32]byte

func bfNewID(b []byte) (id bfID) {
	if len(b) > 0 {
		id[0] = b[0]
	}
	return id
}

type bfOp struct {
	Add   bool `json:"add"`
	X     int  `json:"x"`
	Bytes bool `json:"bytes"` // use Add(bytes)/Contains(bytes) instead of the identifier variants
}

func (o bfOp) coq() string {
	if o.Add {
		return "BF.Add " + vx.Nat(o.X)
	}
	return "BF.Contains " + vx.Nat(o.X)
}

func bfRun(size int, h []bfOp) result {
	f := bytesfilter.New(bfNewID, size)
	var window []int // reference: last `size` accepted identifiers
	obs := make([]string, len(h))
	fail := ""
	evicted := false
	inWin := func(x int) bool {
		for _, y := range window {
			if y == x {
				return true
			}
		}
		return false
	}
	for i, o := range h {
		func() {
			defer func() {
				if rec := recover(); rec != nil {
					obs[i] = "BF.OPanic"
					if size != 0 && fail == "" {
						fail = fmt.Sprintf("op %d panicked with size %d", i, size)
					}
				}
			}()
			id := bfNewID([]byte{byte(o.X)})
			var got bool
			if o.Add {
				if o.Bytes {
					var rid bfID
					rid, got = f.Add([]byte{byte(o.X)})
					if rid != id && fail == "" {
						fail = fmt.Sprintf("op %d: Add returned a different identifier", i)
					}
				} else {
					got = f.AddIdentifier(id)
				}
			} else if o.Bytes {
				got = f.Contains([]byte{byte(o.X)})
			} else {
				got = f.ContainsIdentifier(id)
			}
			obs[i] = "BF.OBool " + vx.Bool(got)
			if size >= 1 {
				exp := inWin(o.X)
				if o.Add {
					exp = !exp
					if exp {
						window = append(window, o.X)
						if len(window) > size {
							window = window[1:]
							evicted = true
						}
					}
				}
				if got != exp && fail == "" {
					fail = fmt.Sprintf("op %d (%s) returned %v, the last-%d-distinct window %v says %v", i, o.coq(), got, size, window, exp)
				}
			}
		}()
	}
	return result{
		term: fmt.Sprintf("CBF %s %s %s", vx.Nat(size), vx.ListOf(h, bfOp.coq), vx.List(obs)),
		kind: "bf", desc: map[string]any{"size": size, "history": h},
		key: fmt.Sprintf("%d|%s", size, join(mapS(h, bfOp.coq))), nontriv: evicted, fail: fail,
		counts: []string{fmt.Sprintf("bf:size=%d", size)},
	}
}

func mapS[T any](xs []T, f func(T) string) []string {
	s := make([]string, len(xs))
	for i, x := range xs {
		s[i] = f(x)
	}
	return s
}

func bfDirected() []result {
	a := func(x int) bfOp { return bfOp{Add: true, X: x} }
	c := func(x int) bfOp { return bfOp{X: x} }
	return []result{
		bfRun(2, []bfOp{a(1), a(2), a(1), a(3), c(1), c(2), c(3), a(1), c(2), c(3), c(1)}),
		bfRun(1, []bfOp{a(1), a(1), a(2), c(1), c(2), a(1), c(2)}),
		bfRun(0, []bfOp{c(1), a(1), c(1)}),
		bfRun(3, []bfOp{a(1), a(2), a(3), a(4), a(5), c(1), c(2), c(3), c(4), c(5), a(3), a(1), c(3), c(4)}),
	}
}

func bfRandom(r *vx.Rng, l int) result {
	size := r.Intn(5)
	if size == 0 && r.Chance(2, 3) {
		size = 1 + r.Intn(4)
	}
	u := 2 + r.Intn(4) // identifiers 0..u-1, u <= 5
	if r.Chance(1, 2) {
		u = size + 1 + r.Intn(2)
	}
	h := make([]bfOp, l)
	for i := range h {
		h[i] = bfOp{Add: r.Chance(3, 5), X: r.Intn(u), Bytes: r.Chance(1, 3)}
	}
	return bfRun(size, h)
}

// ---------------------------------------------------------------- Walker

type wkOp struct {
	K  string `json:"k"` // hasnext pushed next push pushall pushfront stop stopped reset
	X  int    `json:"x,omitempty"`
	Xs []int  `json:"xs,omitempty"`
}

func (o wkOp) coq() string {
	switch o.K {
	case "hasnext":
		return "WK.HasNext"
	case "pushed":
		return "WK.Pushed " + vx.Nat(o.X)
	case "next":
		return "WK.Next"
	case "push":
		return "WK.Push " + vx.Nat(o.X)
	case "pushall":
		return "WK.PushAll " + natList(o.Xs)
	case "pushfront":
		return "WK.PushFront " + natList(o.Xs)
	case "stop":
		return "WK.StopWalk"
	case "stopped":
		return "WK.WalkStopped"
	}
	return "WK.Reset"
}

func wkRun(revisit bool, h []wkOp) result {
	var w *walker.Walker[int]
	if revisit {
		w = walker.New[int](true)
	} else if len(h)%2 == 0 {
		w = walker.New[int]()
	} else {
		w = walker.New[int](false)
	}
	obs := make([]string, len(h))
	fail := ""
	// oracle: multiset bookkeeping since the last Reset
	offered := map[int]int{}
	yielded := map[int]int{}
	repeat := false
	check := func(i int) {
		// drained? -> every offered element was yielded (once, or as often as offered when revisiting)
		for x, n := range yielded {
			lim := 1
			if revisit {
				lim = offered[x]
			}
			if (n > lim || offered[x] == 0) && fail == "" {
				fail = fmt.Sprintf("op %d: element %d yielded %d times (offered %d times, revisit=%v)", i, x, n, offered[x], revisit)
			}
		}
	}
	for i, o := range h {
		func() {
			defer func() {
				if rec := recover(); rec != nil {
					obs[i] = "WK.OPanic"
				}
			}()
			obs[i] = "WK.ONone"
			switch o.K {
			case "hasnext":
				obs[i] = "WK.OBool " + vx.Bool(w.HasNext())
			case "pushed":
				got := w.Pushed(o.X)
				obs[i] = "WK.OBool " + vx.Bool(got)
				if got != (offered[o.X] > 0) && fail == "" {
					fail = fmt.Sprintf("op %d: Pushed(%d)=%v but it was offered %d times", i, o.X, got, offered[o.X])
				}
			case "next":
				x := w.Next()
				obs[i] = "WK.OElem " + vx.Nat(x)
				yielded[x]++
				check(i)
			case "push":
				if offered[o.X] > 0 {
					repeat = true
				}
				offered[o.X]++
				if w.Push(o.X) != w && fail == "" {
					fail = "Push did not return the walker"
				}
			case "pushall", "pushfront":
				for _, x := range o.Xs {
					if offered[x] > 0 {
						repeat = true
					}
					offered[x]++
				}
				if o.K == "pushall" {
					w.PushAll(o.Xs...)
				} else {
					w.PushFront(o.Xs...)
				}
			case "stop":
				w.StopWalk()
			case "stopped":
				obs[i] = "WK.OBool " + vx.Bool(w.WalkStopped())
			case "reset":
				w.Reset()
				offered, yielded = map[int]int{}, map[int]int{}
			}
		}()
	}
	// drain (outside the compared history): everything offered must have come out
	if !w.WalkStopped() {
		for w.HasNext() {
			yielded[w.Next()]++
		}
		for x, n := range offered {
			exp := 1
			if revisit {
				exp = n
			}
			if yielded[x] != exp && fail == "" {
				fail = fmt.Sprintf("after draining: element %d offered %d times was yielded %d times (revisit=%v)", x, n, yielded[x], revisit)
			}
		}
	}
	return result{
		term: fmt.Sprintf("CWK %s %s %s", vx.Bool(revisit), vx.ListOf(h, wkOp.coq), vx.List(obs)),
		kind: "wk", desc: map[string]any{"revisit": revisit, "history": h},
		key: fmt.Sprintf("%v|%s", revisit, join(mapS(h, wkOp.coq))), nontriv: repeat, fail: fail,
		counts: []string{fmt.Sprintf("wk:revisit=%v", revisit)},
	}
}

func wkDirected() []result {
	d12a := []wkOp{{K: "push", X: 1}, {K: "pushfront", Xs: []int{1, 2}}, {K: "pushed", X: 2}, {K: "hasnext"}, {K: "next"}, {K: "next"}, {K: "next"}}
	return []result{
		wkRun(false, d12a),
		wkRun(true, d12a),
		wkRun(false, []wkOp{{K: "pushall", Xs: []int{1, 2, 1, 3}}, {K: "pushfront", Xs: []int{4, 2, 5}}, {K: "next"}, {K: "next"}, {K: "stop"}, {K: "hasnext"}, {K: "next"}, {K: "reset"}, {K: "stopped"}, {K: "pushed", X: 1}, {K: "push", X: 1}, {K: "next"}, {K: "next"}}),
	}
}

func wkRandom(r *vx.Rng, l int) result {
	revisit := r.Chance(1, 3)
	u := 2 + r.Intn(4)
	xs := func() []int {
		k := r.Intn(4)
		s := make([]int, k)
		for i := range s {
			s[i] = r.Intn(u)
		}
		return s
	}
	h := make([]wkOp, l)
	for i := range h {
		k := r.Intn(100)
		switch {
		case k < 8:
			h[i] = wkOp{K: "hasnext"}
		case k < 16:
			h[i] = wkOp{K: "pushed", X: r.Intn(u)}
		case k < 40:
			h[i] = wkOp{K: "next"}
		case k < 58:
			h[i] = wkOp{K: "push", X: r.Intn(u)}
		case k < 70:
			h[i] = wkOp{K: "pushall", Xs: xs()}
		case k < 88:
			h[i] = wkOp{K: "pushfront", Xs: xs()}
		case k < 91:
			h[i] = wkOp{K: "stop"}
		case k < 95:
			h[i] = wkOp{K: "stopped"}
		default:
			h[i] = wkOp{K: "reset"}
		}
	}
	return wkRun(revisit, h)
}
