// C12b harness: lockstep random histories on BytesFilter, Walker, TimeHeap, IndexedStorage, OnChangeMap and
// SubscriptionManager (real code), every return value / iteration result / callback / event recorded as a Coq term.
package main

import (
	"flag"
	"fmt"
	"os"
	"strings"
	"sync"

	"verif/harness/vx"
)

// one generated case: Coq term, replayable description, distinctness key, non-triviality, oracle verdict
type result struct {
	term    string
	kind    string
	desc    map[string]any
	key     string
	nontriv bool
	fail    string // non-empty: the implementation itself violates the property (Go-side oracle)
	counts  []string
}

func join(xs []string) string { return strings.Join(xs, ";") }

func natList(xs []int) string {
	s := make([]string, len(xs))
	for i, x := range xs {
		s[i] = vx.Nat(x)
	}
	return vx.List(s)
}

func pairList(ps [][2]int) string {
	s := make([]string, len(ps))
	for i, p := range ps {
		s[i] = vx.Pair(vx.Nat(p[0]), vx.Nat(p[1]))
	}
	return vx.List(s)
}

func optNat(ok bool, v int) string { return vx.Opt(ok, vx.Nat(v)) }

func main() {
	if len(os.Args) < 2 || os.Args[1] != "hist" {
		vx.Die("usage: hx-c12b hist --n N --len L --seed S --out cases.v --stats stats.json")
	}
	fs := flag.NewFlagSet("hist", flag.ExitOnError)
	n := fs.Int("n", 80, "histories per container")
	nth := fs.Int("nth", 40, "TimeHeap histories (they sleep; run concurrently)")
	maxLen := fs.Int("len", 30, "")
	seed := fs.Uint64("seed", 1, "")
	out := fs.String("out", "cases.v", "")
	stats := fs.String("stats", "stats.json", "")
	only := fs.String("only", "", "restrict to one container (bf wk th is oc sm)")
	_ = fs.Parse(os.Args[2:])
	r := vx.NewRng(*seed)
	st := vx.NewStats("lockstep operation histories per container (universes <= 5, option settings enumerated: filter size 0..4, revisit flag, " +
		"callback registration masks x enabled toggles x callback errors, subscription limit 0..4); distinct = distinct (setting, history) pairs; " +
		"non-trivial = the history exercises the container's characteristic path (eviction from a full filter / a repeated push / an expiry or clear with live entries / " +
		"evict+recreate / an item callback fired / a cleanup with held subscriptions)")
	cf := &vx.CasesFile{
		Header: "From Coq Require Import ZArith NArith Arith List.\nFrom Verif.C12b_Containers Require Import Corr.\nImport ListNotations.\n",
		Type:   "case",
		Footer: "Definition M := Eval vm_compute in mismatches cases.\nPrint M.\n",
	}
	want := func(k string) bool { return *only == "" || *only == k }
	add := func(res result) {
		cf.Add(res.term)
		st.Case(res.kind+"|"+res.key, res.nontriv)
		st.Count("case:" + res.kind)
		for _, c := range res.counts {
			st.Hist[c]++
		}
		res.desc["container"] = res.kind
		st.CaseIndex = append(st.CaseIndex, res.desc)
		if st.Hist["sampled:"+res.kind] < 1 {
			st.Hist["sampled:"+res.kind]++
			st.Sample(map[string]any{"container": res.kind, "case": res.term}, 8)
		}
		if res.fail != "" {
			d := map[string]any{"sig": "", "why": res.fail}
			for k, v := range res.desc {
				d[k] = v
			}
			st.Fail(d)
		}
	}
	type gen struct {
		k        string
		directed func() []result
		random   func(r *vx.Rng, l int) result
	}
	gens := []gen{
		{"bf", bfDirected, bfRandom},
		{"wk", wkDirected, wkRandom},
		{"is", isDirected, isRandom},
		{"oc", ocDirected, ocRandom},
		{"sm", smDirected, smRandom},
	}
	for _, g := range gens {
		if !want(g.k) {
			continue
		}
		cnt := 0
		for _, res := range g.directed() {
			add(res)
			cnt++
		}
		for cnt < *n {
			add(g.random(r.Fork(), 3+r.Intn(*maxLen)))
			cnt++
		}
	}
	if want("th") {
		// TimeHeap histories sleep: generate the scripts first (deterministically), run them concurrently
		scripts := thDirected()
		for len(scripts) < *nth {
			scripts = append(scripts, thRandom(r.Fork(), 3+r.Intn(*maxLen)))
		}
		results := make([]result, len(scripts))
		var wg sync.WaitGroup
		sem := make(chan struct{}, 64)
		for i := range scripts {
			wg.Add(1)
			go func(i int) {
				defer wg.Done()
				sem <- struct{}{}
				defer func() { <-sem }()
				results[i] = thRun(scripts[i])
			}(i)
		}
		wg.Wait()
		for _, res := range results {
			add(res)
		}
	}
	if err := cf.Write(*out); err != nil {
		vx.Die("%v", err)
	}
	if err := st.Write(*stats); err != nil {
		vx.Die("%v", err)
	}
	fmt.Fprintf(os.Stderr, "c12b: %d cases\n", cf.Len())
}
