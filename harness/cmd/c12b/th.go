package main

import (
	"fmt"
	"math"
	"time"

	"github.com/iotaledger/hive.go/ds/timeheap"

	"verif/harness/vx"
)

// ---------------------------------------------------------------- TimeHeap
// Real clock: the script sleeps whole ticks between groups of operations, windows lie half a tick away from every
// nominal age, and a run is accepted only when every (entry, Average) pair is at least `thMargin` away from the
// window boundary as measured by the harness' own clock readings around each call (else the run is repeated).

const (
	thTick   = 120 * time.Millisecond
	thMargin = 15 * time.Millisecond
)

type thOp struct {
	K     string        `json:"k"` // add clear avg sleep
	C     uint64        `json:"c,omitempty"`
	W     time.Duration `json:"w,omitempty"`
	Ticks int           `json:"ticks,omitempty"`
}

type thScript struct {
	Ops []thOp `json:"ops"`
	Big bool   `json:"big"` // counts are multiples of 2^62, windows are powers of two seconds (exact float32 arithmetic)
}

var thWindows = []time.Duration{time.Hour, 0, -time.Second, thTick / 2, thTick + thTick/2, 2*thTick + thTick/2}

func thDirected() []thScript {
	return []thScript{
		// D12b (repaired): Add; Clear; Average
		{Ops: []thOp{{K: "add", C: 10}, {K: "clear"}, {K: "avg", W: time.Hour}, {K: "add", C: 3}, {K: "avg", W: time.Hour}}},
		// expiry by window, then a larger window does not bring entries back
		{Ops: []thOp{{K: "add", C: 5}, {K: "sleep", Ticks: 1}, {K: "add", C: 7}, {K: "avg", W: thTick / 2}, {K: "avg", W: time.Hour}, {K: "sleep", Ticks: 1}, {K: "avg", W: thTick + thTick/2}, {K: "avg", W: 0}, {K: "avg", W: time.Hour}}},
		// uint64 wrap of total
		{Big: true, Ops: []thOp{{K: "add", C: 1 << 63}, {K: "avg", W: 4096 * time.Second}, {K: "add", C: 1 << 63}, {K: "avg", W: 4096 * time.Second}, {K: "add", C: 1 << 62}, {K: "avg", W: 4096 * time.Second}, {K: "clear"}, {K: "avg", W: 4096 * time.Second}}},
	}
}

func thRandom(r *vx.Rng, l int) thScript {
	s := thScript{Big: r.Chance(1, 8)}
	sleeps := 0
	for i := 0; i < l; i++ {
		k := r.Intn(100)
		switch {
		case k < 40:
			c := uint64(r.Intn(10))
			if r.Chance(1, 6) {
				c = uint64(r.Intn(100000))
			}
			if s.Big {
				c = uint64(1+r.Intn(3)) << 62
			}
			s.Ops = append(s.Ops, thOp{K: "add", C: c})
		case k < 48:
			s.Ops = append(s.Ops, thOp{K: "clear"})
		case k < 85:
			w := vx.Pick(r, thWindows)
			if s.Big {
				w = vx.Pick(r, []time.Duration{4096 * time.Second, 1024 * time.Second, 0})
			}
			s.Ops = append(s.Ops, thOp{K: "avg", W: w})
		default:
			if sleeps < 3 && !s.Big {
				sleeps++
				s.Ops = append(s.Ops, thOp{K: "sleep", Ticks: 1})
			}
		}
	}
	return s
}

type thAdd struct {
	t0, t1 time.Time
	c      uint64
	live   bool
}

// one attempt; ok=false when some comparison was too close to a window boundary
func thAttempt(s thScript) (ops []string, obs []string, fail string, nontriv bool, ok bool) {
	h := timeheap.NewTimeHeap()
	start := time.Now()
	us := func(t time.Time) string { return vx.Z(t.Sub(start).Microseconds()) }
	var adds []*thAdd
	ok = true
	for i, o := range s.Ops {
		switch o.K {
		case "sleep":
			time.Sleep(time.Duration(o.Ticks) * thTick)
		case "add":
			a := &thAdd{t0: time.Now(), c: o.C, live: true}
			h.Add(o.C)
			a.t1 = time.Now()
			adds = append(adds, a)
			ops = append(ops, fmt.Sprintf("TH.Add %s %s", us(a.t0), vx.N(o.C)))
			obs = append(obs, "TH.ONone")
		case "clear":
			h.Clear()
			for _, a := range adds {
				if a.live {
					nontriv = true
				}
				a.live = false
			}
			ops = append(ops, "TH.Clear")
			obs = append(obs, "TH.ONone")
		case "avg":
			b0 := time.Now()
			avg := h.AveragePerSecond(o.W)
			b1 := time.Now()
			var exp uint64 // reference: windowed sum of live entries (wraps like uint64)
			for _, a := range adds {
				if !a.live {
					continue
				}
				lo, hi := b0.Sub(a.t1), b1.Sub(a.t0) // the entry's age at the comparison lies in [lo, hi]
				switch {
				case hi < o.W-thMargin:
					exp += a.c
				case lo >= o.W+thMargin || o.W <= 0:
					a.live = false
					nontriv = true
				default:
					ok = false
				}
			}
			// recover total from float32(total)/float32(window.Seconds())
			secs := float32(o.W.Seconds())
			var got uint64
			f := float64(avg)
			switch {
			case math.IsNaN(f) || f == 0:
				got = 0
			case math.IsInf(f, 0) || secs <= 0:
				got = math.MaxUint64
			default:
				got = uint64(math.Round(f * float64(secs)))
			}
			if got != exp && ok && fail == "" {
				fail = fmt.Sprintf("op %d: AveragePerSecond(%v) = %v, i.e. total %d; the windowed sum of live entries is %d", i, o.W, avg, got, exp)
			}
			ops = append(ops, fmt.Sprintf("TH.Average %s %s", us(b0), vx.Z(o.W.Microseconds())))
			obs = append(obs, "TH.OTotal "+vx.N(got))
		}
	}
	return
}

func thRun(s thScript) result {
	var ops, obs []string
	var fail string
	var nontriv, ok bool
	tries := 0
	for tries < 4 {
		tries++
		ops, obs, fail, nontriv, ok = thAttempt(s)
		if ok {
			break
		}
	}
	res := result{
		term: fmt.Sprintf("CTH %s %s", vx.List(ops), vx.List(obs)),
		kind: "th", desc: map[string]any{"script": s, "timed_ops": ops},
		key: fmt.Sprintf("%v", s), nontriv: nontriv, fail: fail,
		counts: []string{fmt.Sprintf("th:tries=%d", tries), fmt.Sprintf("th:big=%v", s.Big)},
	}
	if !ok {
		// the machine was too busy to keep the margins four times in a row: drop the history (an empty case), say so
		res.term = "CTH [] []"
		res.fail = ""
		res.nontriv = false
		res.counts = append(res.counts, "th:dropped-ambiguous-timing")
	}
	return res
}
