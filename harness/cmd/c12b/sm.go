package main

import (
	"fmt"

	"github.com/iotaledger/hive.go/web/subscriptionmanager"

	"verif/harness/vx"
)

// ---------------------------------------------------------------- SubscriptionManager

type smOp struct {
	K string `json:"k"` // connect disconnect sub unsub has csub ssize tsize tall
	C int    `json:"c,omitempty"`
	T int    `json:"t,omitempty"`
}

func (o smOp) coq() string {
	switch o.K {
	case "connect":
		return "SM.Connect " + vx.Nat(o.C)
	case "disconnect":
		return "SM.Disconnect " + vx.Nat(o.C)
	case "sub":
		return fmt.Sprintf("SM.Subscribe %s %s", vx.Nat(o.C), vx.Nat(o.T))
	case "unsub":
		return fmt.Sprintf("SM.Unsubscribe %s %s", vx.Nat(o.C), vx.Nat(o.T))
	case "has":
		return "SM.HasSubscribers " + vx.Nat(o.T)
	case "csub":
		return fmt.Sprintf("SM.ClientSubscribed %s %s", vx.Nat(o.C), vx.Nat(o.T))
	case "ssize":
		return "SM.SubscribersSize"
	case "tsize":
		return "SM.TopicsSize"
	}
	return "SM.TopicsSizeAll"
}

const smU = 5 // clients and topics are 0..4

func smRun(max int, h []smOp) result {
	type C = int
	type T = int
	var m *subscriptionmanager.SubscriptionManager[C, T]
	if max == 0 && len(h)%2 == 0 {
		m = subscriptionmanager.New[C, T]()
	} else {
		m = subscriptionmanager.New[C, T](subscriptionmanager.WithMaxTopicSubscriptionsPerClient[C, T](max),
			subscriptionmanager.WithCleanupThresholdCount[C, T](1+len(h)%3), subscriptionmanager.WithCleanupThresholdRatio[C, T](0.5))
	}
	var evs []string
	// what a listener reconstructs from the events alone
	shClients := map[int]map[int]int{}
	shTopics := map[int]bool{}
	fail := ""
	bad := func(f string, a ...any) {
		if fail == "" {
			fail = fmt.Sprintf(f, a...)
		}
	}
	e := m.Events()
	e.ClientConnected.Hook(func(ev *subscriptionmanager.ClientEvent[C]) {
		evs = append(evs, "SM.EConnected "+vx.Nat(ev.ClientID))
		if _, ok := shClients[ev.ClientID]; ok {
			bad("ClientConnected(%d) for a client the listener already knows as connected", ev.ClientID)
		}
		shClients[ev.ClientID] = map[int]int{}
	})
	e.ClientDisconnected.Hook(func(ev *subscriptionmanager.ClientEvent[C]) {
		evs = append(evs, "SM.EDisconnected "+vx.Nat(ev.ClientID))
		if tm, ok := shClients[ev.ClientID]; !ok || len(tm) != 0 {
			bad("ClientDisconnected(%d) while the listener counts subscriptions %v (connected=%v)", ev.ClientID, tm, ok)
		}
		delete(shClients, ev.ClientID)
	})
	e.TopicSubscribed.Hook(func(ev *subscriptionmanager.ClientTopicEvent[C, T]) {
		evs = append(evs, fmt.Sprintf("SM.ESubscribed %s %s", vx.Nat(ev.ClientID), vx.Nat(ev.Topic)))
		if tm, ok := shClients[ev.ClientID]; ok {
			tm[ev.Topic]++
		} else {
			bad("TopicSubscribed(%d,%d) for a client that is not connected", ev.ClientID, ev.Topic)
		}
	})
	e.TopicUnsubscribed.Hook(func(ev *subscriptionmanager.ClientTopicEvent[C, T]) {
		evs = append(evs, fmt.Sprintf("SM.EUnsubscribed %s %s", vx.Nat(ev.ClientID), vx.Nat(ev.Topic)))
		if tm, ok := shClients[ev.ClientID]; ok && tm[ev.Topic] > 0 {
			tm[ev.Topic]--
			if tm[ev.Topic] == 0 {
				delete(tm, ev.Topic)
			}
		} else {
			bad("TopicUnsubscribed(%d,%d) without a matching TopicSubscribed", ev.ClientID, ev.Topic)
		}
	})
	e.TopicAdded.Hook(func(ev *subscriptionmanager.TopicEvent[T]) {
		evs = append(evs, "SM.ETopicAdded "+vx.Nat(ev.Topic))
		if shTopics[ev.Topic] {
			bad("TopicAdded(%d) for a topic that already has subscribers", ev.Topic)
		}
		shTopics[ev.Topic] = true
	})
	e.TopicRemoved.Hook(func(ev *subscriptionmanager.TopicEvent[T]) {
		evs = append(evs, "SM.ETopicRemoved "+vx.Nat(ev.Topic))
		if !shTopics[ev.Topic] {
			bad("TopicRemoved(%d) for a topic without subscribers", ev.Topic)
		}
		delete(shTopics, ev.Topic)
	})
	e.DropClient.Hook(func(ev *subscriptionmanager.DropClientEvent[C]) {
		evs = append(evs, "SM.EDrop "+vx.Nat(ev.ClientID))
		if ev.Reason != subscriptionmanager.ErrMaxTopicSubscriptionsPerClientReached {
			bad("DropClient with an unexpected reason")
		}
	})
	obs := make([]string, len(h))
	cleanupHeld := false
	for i, o := range h {
		evs = nil
		out := "SM.ONone"
		held := len(shClients[o.C]) > 0
		switch o.K {
		case "connect":
			m.Connect(o.C)
			cleanupHeld = cleanupHeld || held
		case "disconnect":
			out = "SM.OBool " + vx.Bool(m.Disconnect(o.C))
			cleanupHeld = cleanupHeld || held
		case "sub":
			ok := m.Subscribe(o.C, o.T)
			out = "SM.OBool " + vx.Bool(ok)
			if _, conn := shClients[o.C]; !ok && held && !conn {
				cleanupHeld = true // forced drop of a client with subscriptions
			}
		case "unsub":
			out = "SM.OBool " + vx.Bool(m.Unsubscribe(o.C, o.T))
		case "has":
			out = "SM.OBool " + vx.Bool(m.TopicHasSubscribers(o.T))
		case "csub":
			out = "SM.OBool " + vx.Bool(m.ClientSubscribedToTopic(o.C, o.T))
		case "ssize":
			out = "SM.ONat " + vx.Nat(m.SubscribersSize())
		case "tsize":
			out = "SM.ONat " + vx.Nat(m.TopicsSize())
		default:
			out = "SM.ONat " + vx.Nat(m.TopicsSizeAll())
		}
		obs[i] = vx.Pair(out, vx.List(evs))
		// oracle after every operation: the manager's answers = the sums over the listener's per-client view
		if fail == "" {
			all := 0
			for t := 0; t < smU; t++ {
				any := false
				for c := 0; c < smU; c++ {
					n := shClients[c][t]
					if (n > 0) != m.ClientSubscribedToTopic(c, t) {
						bad("after op %d (%s): ClientSubscribedToTopic(%d,%d)=%v, the events say count %d", i, o.coq(), c, t, !(n > 0), n)
					}
					if n > 0 {
						any = true
						all++
					}
				}
				if any != m.TopicHasSubscribers(t) {
					bad("after op %d (%s): TopicHasSubscribers(%d)=%v but the clients' subscriptions say %v", i, o.coq(), t, !any, any)
				}
				if any != shTopics[t] {
					bad("after op %d (%s): TopicAdded/TopicRemoved events say %v for topic %d, the clients' subscriptions say %v", i, o.coq(), shTopics[t], t, any)
				}
			}
			if m.SubscribersSize() != len(shClients) || m.TopicsSize() != len(shTopics) || m.TopicsSizeAll() != all {
				bad("after op %d (%s): sizes (%d,%d,%d) differ from the listener's view (%d,%d,%d)", i, o.coq(), m.SubscribersSize(), m.TopicsSize(), m.TopicsSizeAll(), len(shClients), len(shTopics), all)
			}
			if max != 0 {
				for c, tm := range shClients {
					if len(tm) >= max {
						bad("after op %d: client %d holds %d topics with limit %d", i, c, len(tm), max)
					}
				}
			}
		}
	}
	return result{
		term: fmt.Sprintf("CSM %s %s %s", vx.Nat(max), vx.ListOf(h, smOp.coq), vx.List(obs)),
		kind: "sm", desc: map[string]any{"max": max, "history": h},
		key: fmt.Sprintf("%d|%s", max, join(mapS(h, smOp.coq))), nontriv: cleanupHeld, fail: fail,
		counts: []string{fmt.Sprintf("sm:max=%d", max)},
	}
}

func smDirected() []result {
	d12c := []smOp{{K: "connect", C: 1}, {K: "connect", C: 2}, {K: "sub", C: 1, T: 0}, {K: "sub", C: 2, T: 1}, {K: "sub", C: 2, T: 0},
		{K: "has", T: 0}, {K: "csub", C: 1, T: 0}, {K: "has", T: 1}, {K: "tsize"}, {K: "ssize"}, {K: "tall"}, {K: "unsub", C: 1, T: 0}, {K: "has", T: 0}}
	multi := []smOp{{K: "connect", C: 0}, {K: "sub", C: 0, T: 1}, {K: "sub", C: 0, T: 1}, {K: "sub", C: 0, T: 2}, {K: "connect", C: 1}, {K: "sub", C: 1, T: 1},
		{K: "tall"}, {K: "connect", C: 0}, {K: "has", T: 1}, {K: "has", T: 2}, {K: "unsub", C: 1, T: 1}, {K: "unsub", C: 1, T: 1}, {K: "disconnect", C: 1}, {K: "disconnect", C: 1}, {K: "sub", C: 3, T: 0}, {K: "unsub", C: 3, T: 0}}
	return []result{smRun(2, d12c), smRun(3, d12c), smRun(0, multi), smRun(1, multi), smRun(3, multi)}
}

func smRandom(r *vx.Rng, l int) result {
	max := r.Intn(5)
	nc := 2 + r.Intn(smU-1) // 2..5 clients
	nt := 2 + r.Intn(smU-1)
	if nc > smU {
		nc = smU
	}
	if nt > smU {
		nt = smU
	}
	h := make([]smOp, 0, l)
	for c := 0; c < nc && r.Chance(4, 5); c++ {
		h = append(h, smOp{K: "connect", C: c})
	}
	for len(h) < l {
		k := r.Intn(100)
		c, t := r.Intn(nc), r.Intn(nt)
		switch {
		case k < 10:
			h = append(h, smOp{K: "connect", C: c})
		case k < 18:
			h = append(h, smOp{K: "disconnect", C: c})
		case k < 55:
			h = append(h, smOp{K: "sub", C: c, T: t})
		case k < 78:
			h = append(h, smOp{K: "unsub", C: c, T: t})
		case k < 84:
			h = append(h, smOp{K: "has", T: t})
		case k < 90:
			h = append(h, smOp{K: "csub", C: c, T: t})
		case k < 93:
			h = append(h, smOp{K: "ssize"})
		case k < 96:
			h = append(h, smOp{K: "tsize"})
		default:
			h = append(h, smOp{K: "tall"})
		}
	}
	return smRun(max, h)
}
