//go:build race

package main

// raceBuild: the directed detector cases change debug.DeadlockDetectionTimeout (a plain package variable that finished
// detector goroutines have read) between two cases; they are about timing, not about data races, and are skipped here.
const raceBuild = true
