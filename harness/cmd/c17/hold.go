package main

// Callbacks held at a gate (round 4): the wait primitives of runtime/syncutils take caller-supplied callbacks -
// Stack.PopOrWait's waitCondition and the Counter's subscribers - and call them in the middle of their critical
// sections. The harness supplies these callbacks, so it can stop a caller INSIDE its callback for as long as it likes:
// while a caller is held there, other goroutines start Push / Pop / SignalShutdown / Size / size waits (Set / Update /
// Get / value waits for the Counter); the harness waits until each of them has returned, is parked on a condition
// variable (ticket counters), or is blocked on the object's mutex (goroutine wait reason of the Go runtime - no timing),
// then opens the gate and lets everything run to quiescence. The judge is the property itself: no wait may stay parked
// although its condition holds, a wait that returned did so on a true condition. The stack cases also go to Coq, where
// the model evaluates the callback as a step of its own with the mutex held (Corr.v: hsys).

import (
	"bytes"
	"fmt"
	"runtime"
	"strconv"
	"strings"
	"sync"
	"sync/atomic"
	"time"

	"github.com/iotaledger/hive.go/runtime/syncutils"

	"verif/harness/vx"
)

// ---------- goroutine wait reasons ----------

func goid() uint64 {
	var b [64]byte
	n := runtime.Stack(b[:], false)
	f := bytes.Fields(b[:n]) // "goroutine 18 [running]:"
	if len(f) < 2 {
		return 0
	}
	id, _ := strconv.ParseUint(string(f[1]), 10, 64)
	return id
}

var stackBuf = make([]byte, 1<<20)

// lockBlocked counts the goroutines among ids that are blocked in sync.Mutex.Lock / sync.RWMutex.Lock / RLock (the wait
// reason the runtime records when a goroutine sleeps on a mutex semaphore).
func lockBlocked(ids map[uint64]bool) int {
	for {
		n := runtime.Stack(stackBuf, true)
		if n < len(stackBuf) || len(stackBuf) >= 64<<20 {
			stackBuf = stackBuf[:cap(stackBuf)]
			return countLockBlocked(stackBuf[:n], ids)
		}
		stackBuf = make([]byte, 2*len(stackBuf))
	}
}

func countLockBlocked(dump []byte, ids map[uint64]bool) (k int) {
	for _, blk := range bytes.Split(dump, []byte("\n\n")) {
		if !bytes.HasPrefix(blk, []byte("goroutine ")) {
			continue
		}
		line := blk
		if i := bytes.IndexByte(blk, '\n'); i >= 0 {
			line = blk[:i]
		}
		f := bytes.Fields(line)
		if len(f) < 3 {
			continue
		}
		id, err := strconv.ParseUint(string(f[1]), 10, 64)
		if err != nil || !ids[id] {
			continue
		}
		st := string(line[bytes.IndexByte(line, '[')+1:])
		if i := strings.IndexAny(st, ",]"); i >= 0 {
			st = st[:i]
		}
		if st == "sync.Mutex.Lock" || st == "sync.RWMutex.Lock" || st == "sync.RWMutex.RLock" {
			k++
		}
	}
	return k
}

// ---------- gates ----------

// every thread has two gates: stage 0 = the callback has been entered and has not looked at anything yet, stage 1 = the
// callback has computed its result and has not returned yet (slot = 2*thread + stage)
type gates struct {
	armed  []atomic.Bool
	held   []atomic.Bool
	mu     sync.Mutex
	gate   []chan struct{}
	in     atomic.Int64
	passed atomic.Int64 // callbacks that were actually held in this scenario
	// one-shot panics (round 6, panic.go): slot 2*t+stage as above; panics = callbacks that actually panicked
	panicArmed []atomic.Bool
	panics     atomic.Int64
}

func newGates(n int) *gates {
	return &gates{armed: make([]atomic.Bool, 2*n), held: make([]atomic.Bool, 2*n), gate: make([]chan struct{}, 2*n), panicArmed: make([]atomic.Bool, 2*n)}
}

// pass is called from inside the callback of thread t at the given stage: when a hold is armed it blocks until release(t)
func (g *gates) pass(t int, stage int) {
	k := 2*t + stage
	if !g.armed[k].CompareAndSwap(true, false) {
		return
	}
	c := make(chan struct{})
	g.mu.Lock()
	g.gate[k] = c
	g.mu.Unlock()
	g.passed.Add(1)
	g.held[k].Store(true)
	g.in.Add(1)
	<-c
}

func (g *gates) arm(t int, stage int) { g.armed[2*t+stage].Store(true) }

func (g *gates) release(t int) bool {
	for k := 2 * t; k <= 2*t+1; k++ {
		if !g.held[k].Load() {
			continue
		}
		g.mu.Lock()
		c := g.gate[k]
		g.mu.Unlock()
		g.held[k].Store(false)
		g.in.Add(-1) // before the gate opens: from now on the caller counts as running again
		close(c)
		return true
	}
	return false
}

// heldAny returns a thread that is held at a gate, or -1
func (g *gates) heldAny() int {
	for k := range g.held {
		if g.held[k].Load() {
			return k / 2
		}
	}
	return -1
}

// ---------- worlds with gated callbacks ----------

type holdWorld interface {
	world
	gates() *gates
	// observation that does not touch the object's mutex (somebody is held inside a callback that runs under it)
	observeHeld() []int64
	// noteArrival: thread t's next operation is about to be released
	noteArrival(t int)
	// completed[i] returned during the last event and was run by thread completedBy[i]
	judgeHold(obs []int64, inflight []*op, completed []op, completedBy []int, ev string) string
}

type stkHold struct {
	stkWorld
	g        *gates
	popsAt   int
	lastCond []atomic.Int32 // what thread t's waitCondition returned last: 0 not called, 1 false, 2 true
}

func (w *stkHold) gates() *gates   { return w.g }
func (w *stkHold) noteArrival(int) {}
func (w *stkHold) exec(t int, o op) {
	switch o.K {
	case "PopOrWait":
		v, ok := w.s.PopOrWait(func() bool {
			w.g.pass(t, 0)
			w.g.panicIf(t, 0, nil)
			c := w.flag.Load()
			w.g.pass(t, 1)
			w.g.panicIf(t, 1, nil)
			w.lastCond[t].Store(1 + int32(b2i(c)))
			return c
		})
		w.logPop(t, v, ok)
	case "Size":
		_ = w.s.Size()
	default:
		w.stkWorld.exec(t, o)
	}
}
func (w *stkHold) observeHeld() []int64 {
	a, b := w.s.VerifTickets()
	return []int64{-1, int64(a - b), 0}
}

// judgeHold: the property at a quiescent point where nobody is inside a callback; ev = the event that led here
func (w *stkHold) judgeHold(obs []int64, inflight []*op, completed []op, completedBy []int, ev string) string {
	if s := w.stkWorld.judge(obs, inflight, completed); s != "" {
		return s
	}
	// PopOrWait gives up only when its wait condition returned false
	w.mu.Lock()
	defer w.mu.Unlock()
	for i := w.popsAt; i+1 < len(w.pops); i += 2 {
		if w.pops[i+1] != 0 {
			continue
		}
		for j, c := range completed {
			if c.K == "PopOrWait" && int64(completedBy[j]) == w.pops[i] && w.lastCond[completedBy[j]].Load() != 1 {
				return "PopOrWait returned without an element although its wait condition did not return false"
			}
		}
	}
	w.popsAt = len(w.pops)
	return ""
}

// cntHold: a Counter with one subscriber whose callback can be held (it runs inside Set / Update under valueMutex).
// The subscriber also records every value the counter takes (it is called for every change, under the mutex).
type cntHold struct {
	cntWorld
	g   *gates
	lmu sync.Mutex
	log []int // values taken, in order (the initial 0 is not in it)
	at  []int // at[t] = len(log) when thread t's current operation was released
}

func (w *cntHold) gates() *gates { return w.g }
func (w *cntHold) noteArrival(t int) {
	w.lmu.Lock()
	w.at[t] = len(w.log)
	w.lmu.Unlock()
}
func (w *cntHold) exec(t int, o op) {
	if o.K == "Get" {
		_ = w.c.Get()
		return
	}
	w.cntWorld.exec(t, o)
}
func (w *cntHold) observeHeld() []int64 {
	a, b := w.c.VerifTickets()
	return []int64{-1, int64(a - b), 0}
}

// judgeHold: nobody is parked on a true condition (the value is stable at a quiescent point); a wait that returned did
// so on a value the counter had at some moment since the call (several operations may have changed the value during one
// event when they were blocked on the mutex behind a held callback; the subscriber log has every value)
func (w *cntHold) judgeHold(obs []int64, inflight []*op, completed []op, completedBy []int, ev string) string {
	if s := w.cntWorld.judge(obs, inflight, nil); s != "" {
		return s
	}
	w.lmu.Lock()
	defer w.lmu.Unlock()
	for i, c := range completed {
		if c.K != "CWaitBelow" && c.K != "CWaitAbove" {
			continue
		}
		from := w.at[completedBy[i]]
		cand := []int{0}
		if from > 0 {
			cand[0] = w.log[from-1]
		}
		cand = append(cand, w.log[from:]...)
		ok := false
		for _, v := range cand {
			ok = ok || c.K == "CWaitBelow" && v < c.A || c.K == "CWaitAbove" && v > c.A
		}
		if !ok {
			return fmt.Sprintf("%s(%d) returned although the value was never on that side of the threshold since the call (values since the call: %v)", c.K, c.A, cand)
		}
	}
	return ""
}

func newHoldWorld(sc *scenario) holdWorld {
	n := len(sc.Scripts)
	if sc.Kind == "cnth" || sc.Kind == "cntp" {
		w := &cntHold{cntWorld: cntWorld{c: syncutils.NewCounter()}, g: newGates(n), at: make([]int, n)}
		w.c.Subscribe(func(_, nv int) {
			w.lmu.Lock()
			w.log = append(w.log, nv)
			w.lmu.Unlock()
			w.g.panicIf(0, 0, w.nobodyParked)
			w.g.pass(0, 0)
			w.g.panicIf(0, 1, w.nobodyParked)
		})
		return w
	}
	w := &stkHold{stkWorld: stkWorld{s: syncutils.NewStack[int]()}, g: newGates(n), lastCond: make([]atomic.Int32, n)}
	w.flag.Store(true)
	return w
}

// ---------- runner ----------

// events of a hold scenario (n threads): e < n arrival of thread e's next operation (skipped while the thread is inside
// an operation or while any operation is blocked on the object's mutex); n <= e < 2n arm a one-shot hold for thread
// e-n at the entry of its callback; 2n <= e < 3n open the gate thread e-2n is held at; 3n <= e arm a one-shot hold for
// thread e-3n between the moment its callback has computed the result and its return.
func runHold(sc *scenario) (seen [][]int64, fail string) {
	w := newHoldWorld(sc)
	g := w.gates()
	n := len(sc.Scripts)
	rel := make([]chan struct{}, n)
	done := make([]atomic.Int64, n)
	var returned atomic.Int64
	ids := map[uint64]bool{}
	idc := make(chan uint64, n)
	for t := 0; t < n; t++ {
		rel[t] = make(chan struct{}, 1)
		go func(t int) {
			idc <- goid()
			for _, o := range sc.Scripts[t] {
				if _, ok := <-rel[t]; !ok {
					return
				}
				execRecovering(w, t, o)
				done[t].Add(1)
				returned.Add(1)
			}
		}(t)
	}
	for t := 0; t < n; t++ {
		ids[<-idc] = true
	}
	defer func() {
		for t := 0; t < n; t++ {
			g.release(t)
			close(rel[t])
		}
	}()
	released := make([]int, n)
	prevDone := make([]int64, n)
	total := int64(0)
	blocked := int64(0) // operations blocked on the object's mutex at the last quiescent point
	everHeld := false
	quiesce := func(step int) string {
		deadline := time.Now().Add(stallTimeout)
		spins := 0
		for {
			r1 := returned.Load()
			w1, n1 := w.tickets()
			g1 := g.in.Load()
			need := total - r1 - int64(w1-n1) - g1
			ok := need == 0
			if need > 0 && g1 > 0 && spins > 2 {
				// somebody is inside a callback: the others may be blocked on the mutex that is held around it
				ok = int64(lockBlocked(ids)) == need
			}
			if ok {
				r2 := returned.Load()
				w2, n2 := w.tickets()
				if r1 == r2 && w1 == w2 && n1 == n2 && g1 == g.in.Load() {
					blocked = need
					return ""
				}
			}
			spins++
			if spins < 200 {
				runtime.Gosched()
			} else {
				time.Sleep(50 * time.Microsecond)
			}
			if spins%500 == 0 && time.Now().After(deadline) {
				return fmt.Sprintf("event %d: a released operation neither returned, nor parked on a condition variable, nor is it blocked on the mutex held around a callback within %v (released=%d returned=%d parked=%d inside a held callback=%d blocked in sync.(RW)Mutex.(R)Lock=%d)", step, stallTimeout, total, r1, w1-n1, g1, lockBlocked(ids))
			}
		}
	}
	event := func(step int, e int) string {
		ev := ""
		switch {
		case e < n:
			ev = "skipped"
			if released[e] < len(sc.Scripts[e]) && int(done[e].Load()) == released[e] && blocked == 0 {
				ev = "arrival:" + sc.Scripts[e][released[e]].K
				w.noteArrival(e)
				released[e]++
				total++
				rel[e] <- struct{}{}
			}
		case e < 2*n:
			ev = "arm"
			g.arm(e-n, 0)
		case e < 3*n:
			ev = "release"
			g.release(e - 2*n)
		case e < 4*n:
			ev = "arm-after-read"
			g.arm(e-3*n, 1)
		case e < 5*n:
			ev = "arm-panic"
			g.panicArmed[2*(e-4*n)].Store(true)
		default:
			ev = "arm-panic-after-read"
			g.panicArmed[2*(e-5*n)+1].Store(true)
		}
		if s := quiesce(step); s != "" {
			return s
		}
		held := g.heldAny() >= 0
		everHeld = everHeld || held
		var obs []int64
		switch {
		case held:
			obs = w.observeHeld()
		case g.panics.Load() > 0:
			// a callback panicked earlier and its caller recovered: the observer takes the object's mutex, which is free at a
			// quiescent point with nobody inside a callback - under the watchdog (a leaked mutex must become a reported outcome)
			ch := make(chan []int64, 1)
			go func() { ch <- w.observe() }()
			select {
			case obs = <-ch:
			case <-time.After(stallTimeout):
				return fmt.Sprintf("event %d (%s %d): the object's mutex is still locked at a quiescent point with nobody inside a callback, after a callback panicked and its caller recovered: an observer that takes the mutex did not get it within %v (every wait / update blocks although no goroutine is inside the critical section)", step, ev, e, stallTimeout)
			}
		default:
			obs = w.observe()
		}
		state := obs
		inflight := make([]*op, n)
		var completed []op
		var completedBy []int
		for u := 0; u < n; u++ {
			d := done[u].Load()
			obs = append(obs, d)
			if int(d) < released[u] {
				inflight[u] = &sc.Scripts[u][released[u]-1]
			}
			for k := prevDone[u]; k < d; k++ {
				completed = append(completed, sc.Scripts[u][k])
				completedBy = append(completedBy, u)
			}
			prevDone[u] = d
		}
		if sc.Kind == "cntp" || sc.Kind == "stkp" {
			obs = append(obs, g.panics.Load())
		}
		if sw, ok := w.(*stkHold); ok {
			sw.mu.Lock()
			obs = append(obs, sw.pops...)
			sw.mu.Unlock()
		}
		seen = append(seen, obs)
		if fail == "" && !held {
			if s := w.judgeHold(state, inflight, completed, completedBy, ev); s != "" {
				fail = fmt.Sprintf("event %d (%s %d): %s", step, ev, e, s)
			}
		}
		return ""
	}
	for step, e := range sc.Events {
		if s := event(step, e); s != "" {
			return seen, s
		}
	}
	// tail: open every gate, then round-robin arrivals until a whole pass releases nothing (appended to the events)
	for pass := 0; pass < 16; pass++ {
		any := false
		for t := 0; t < n; t++ {
			if h := g.heldAny(); h >= 0 {
				sc.Events = append(sc.Events, 2*n+h)
				if s := event(len(sc.Events)-1, 2*n+h); s != "" {
					return seen, s
				}
				any = true
			}
			if released[t] == len(sc.Scripts[t]) || int(done[t].Load()) < released[t] || blocked != 0 {
				continue
			}
			sc.Events = append(sc.Events, t)
			if s := event(len(sc.Events)-1, t); s != "" {
				return seen, s
			}
			any = true
		}
		if !any {
			break
		}
	}
	for u := 0; u < n; u++ {
		abandoned += released[u] - int(done[u].Load())
	}
	sc.Held = int(g.passed.Load())
	sc.Panics = int(g.panics.Load())
	return seen, fail
}

// ---------- generators ----------

func emitHold(cf *vx.CasesFile, st *vx.Stats, sc *scenario) {
	if stalls >= maxStalls {
		st.Count("skipped-after-stalls")
		return
	}
	seen, fail := runHold(sc)
	if strings.Contains(fail, "neither returned, nor parked") || strings.Contains(fail, "mutex is still locked") {
		stalls++
	}
	parts := []string{caseKey(sc.Kind)}
	for _, s := range sc.Scripts {
		parts = append(parts, vx.ListOf(s, func(o op) string { return fmt.Sprintf("%s%d", o.K, o.A) }))
		for _, o := range s {
			st.Count(sc.Kind + ":" + o.K)
		}
	}
	parts = append(parts, fmt.Sprint(sc.Events))
	st.Count("cases:" + sc.Kind + ":" + sc.Tag)
	if sc.Held > 0 {
		st.Count("cases-with-a-caller-held-inside-its-callback:" + sc.Kind)
	}
	if sc.Panics > 0 {
		st.Count("cases-with-a-callback-that-panicked(recovered-by-the-caller):" + sc.Kind)
	}
	st.Case(strings.Join(parts, "|"), sc.Held > 0 || sc.Panics > 0)
	if sc.Kind == "stkh" {
		cf.Add(sc.coq(seen))
		st.CaseIndex = append(st.CaseIndex, sc)
	} else {
		st.Count("go-side-oracle-only:" + sc.Kind)
	}
	if len(st.Samples) < 3 && sc.Held > 0 && sc.Tag != "directed" {
		st.Sample(map[string]any{"scenario": sc, "observed": seen}, 3)
	}
	if fail != "" {
		st.Fail(map[string]any{"sig": "", "scenario": sc, "why": fail, "observed": seen})
	}
}

// prefixes that bring thread 0 (the PopOrWait caller) into its callback; thread 1 = interfering operations,
// thread 2 = operations after the gate has been opened
type holdPrefix struct {
	name   string
	t0, t2 []op // operations of thread 0 / of thread 2 used by the prefix
	events []int
}

func genHold(r *vx.Rng, cf *vx.CasesFile, st *vx.Stats, nRandom int) {
	const n = 3
	const arm, release = -1, 2*n + 0 // arm: replaced by the arm event of the stage
	prefixes := []holdPrefix{
		// held in the first evaluation (stack empty at the call)
		{name: "first-evaluation", t0: ops("PopOrWait"), events: []int{arm, 0}},
		// parked, woken by a SignalShutdown that leaves the condition true, held in the re-evaluation
		{name: "re-evaluation-after-SignalShutdown", t0: ops("PopOrWait"), t2: []op{{K: "SetFlag", A: 1}}, events: []int{0, arm, 2}},
		// the first PopOrWait pops an element, the second one is held (the stack has a history)
		{name: "first-evaluation-after-pop", t0: ops("PopOrWait", "PopOrWait"), t2: []op{{K: "Push", A: 3}}, events: []int{2, 0, arm, 0}},
	}
	interfering := [][]op{
		{{K: "Push", A: 1}}, {{K: "Pop"}}, {{K: "SetFlag", A: 0}}, {{K: "SetFlag", A: 1}}, {{K: "KWaitBelow", A: 1}},
		{{K: "KWaitBelow", A: 2}}, {{K: "Size"}},
		// two operations while the caller is held (the second one arrives only if the first one was not blocked)
		{{K: "Push", A: 1}, {K: "Push", A: 2}}, {{K: "Push", A: 1}, {K: "Pop"}}, {{K: "Push", A: 1}, {K: "SetFlag", A: 0}},
		{{K: "SetFlag", A: 0}, {K: "Push", A: 1}}, {{K: "SetFlag", A: 0}, {K: "SetFlag", A: 1}}, {{K: "Push", A: 1}, {K: "KWaitBelow", A: 1}},
		{{K: "Pop"}, {K: "Push", A: 1}}, {{K: "Size"}, {K: "Push", A: 1}},
		{},
	}
	suffixes := [][]op{{}, {{K: "Push", A: 4}}, {{K: "SetFlag", A: 0}}, {{K: "Push", A: 4}, {K: "SetFlag", A: 0}}, {{K: "SetFlag", A: 1}, {K: "Push", A: 4}}}
	for _, p := range prefixes {
		for _, in := range interfering {
			for _, sf := range suffixes {
				// holdAgain: the evaluation after the next wake-up is held as well, with the same interfering operations once more
				// stage 0: held at the entry of the callback, 1: held after the callback has read the condition
				for v := 0; v < 4; v++ {
					holdAgain, stage := v&1 == 1, v>>1
					if holdAgain && (len(sf) == 0 || len(in) > 1) {
						continue
					}
					sc := &scenario{Kind: "stkh", Tag: "systematic"}
					t0 := append([]op{}, p.t0...)
					t1 := append([]op{}, in...)
					t2 := append(append([]op{}, p.t2...), sf...)
					ev := append([]int(nil), p.events...)
					for range in {
						ev = append(ev, 1)
					}
					ev = append(ev, release)
					if holdAgain {
						ev = append(ev, arm)
					}
					for i := range sf {
						ev = append(ev, 2)
						if holdAgain && i == 0 {
							t1 = append(t1, in...)
							for range in {
								ev = append(ev, 1)
							}
							ev = append(ev, release)
						}
					}
					for i := range ev {
						if ev[i] == arm {
							ev[i] = []int{n + 0, 3*n + 0}[stage]
						}
					}
					sc.Scripts = [][]op{t0, t1, t2}
					sc.Events = ev
					name := "none"
					if len(in) > 0 {
						name = ""
						for _, o := range in {
							name += o.K
						}
					}
					st.Count("hold:PopOrWait.waitCondition:" + []string{"entered", "condition-read"}[stage] + ":" + p.name + " x " + name)
					emitHold(cf, st, sc)
				}
			}
		}
	}
	// random: scripts as in the scripted stack family (thread 0 is the only PopOrWait caller), arm / release events
	// sprinkled over a random arrival order
	for i := 0; i < nRandom; i++ {
		nt := 2 + r.Intn(3)
		scripts := make([][]op, nt)
		for t := range scripts {
			l := 1 + r.Intn(3)
			for k := 0; k < l; k++ {
				var o op
				switch c := r.Intn(8); {
				case t == 0 && c < 6:
					o = op{K: "PopOrWait"}
				case c < 2:
					o = op{K: "Push", A: r.Intn(5)}
				case c == 2:
					o = op{K: "Pop"}
				case c == 3:
					o = op{K: "KWaitBelow", A: 1 + r.Intn(2)}
				case c == 4 || c == 5:
					o = op{K: "SetFlag", A: r.Intn(2)}
				case c == 6:
					o = op{K: "Size"}
				default:
					o = op{K: "Push", A: r.Intn(5)}
				}
				scripts[t] = append(scripts[t], o)
			}
		}
		var ev []int
		for _, t := range randomInterleaving(r, lensOf(scripts)) {
			if r.Chance(1, 3) {
				ev = append(ev, vx.Pick(r, []int{nt + 0, 3*nt + 0}))
			}
			ev = append(ev, t)
			if r.Chance(1, 3) {
				ev = append(ev, 2*nt+0)
			}
		}
		emitHold(cf, st, &scenario{Kind: "stkh", Tag: "random", Scripts: scripts, Events: ev})
	}
	genHoldCounter(r, st, nRandom/2)
	genHoldPanic(r, st, nRandom/2)
}

// Counter: the subscriber callback runs inside Set / Update, after the value was written, with valueMutex held. While
// a Set / Update is held there, waits / updates / Get of other goroutines arrive; judged by the Go-side oracle only (the
// Coq model of the Counter has no subscribers).
func genHoldCounter(r *vx.Rng, st *vx.Stats, nRandom int) {
	const n = 3
	arm, release := n+0, 2*n+0
	holders := [][]op{{{K: "Set", A: 2}}, {{K: "Update", A: 1}}, {{K: "Set", A: 3}, {K: "Update", A: -3}}, {{K: "Update", A: 2}, {K: "Set", A: 0}}}
	interfering := [][]op{
		{{K: "CWaitBelow", A: 1}}, {{K: "CWaitBelow", A: 3}}, {{K: "CWaitAbove", A: 0}}, {{K: "CWaitAbove", A: 2}}, {{K: "Get"}},
		{{K: "Update", A: -1}}, {{K: "Set", A: 0}}, {{K: "Update", A: 1}, {K: "CWaitAbove", A: 2}}, {{K: "CWaitBelow", A: 1}, {K: "Set", A: 0}},
		{{K: "Set", A: 0}, {K: "CWaitBelow", A: 1}},
	}
	parked := [][]op{{}, {{K: "CWaitBelow", A: 1}}, {{K: "CWaitAbove", A: 2}}}
	for _, h := range holders {
		for _, in := range interfering {
			for _, pk := range parked {
				// second: the hold is armed for the holder's second operation instead of its first
				for second := 0; second < len(h); second++ {
					sc := &scenario{Kind: "cnth", Tag: "systematic", Scripts: [][]op{h, in, append([]op{}, pk...)}}
					var ev []int
					if len(pk) > 0 {
						if pk[0].K == "CWaitBelow" {
							// make it block: the value has to be positive first
							sc.Scripts[2] = append([]op{{K: "Update", A: 1}}, pk...)
							ev = append(ev, 2)
						}
						ev = append(ev, 2)
					}
					for k := 0; k < second; k++ {
						ev = append(ev, 0)
					}
					ev = append(ev, arm, 0)
					for range in {
						ev = append(ev, 1)
					}
					ev = append(ev, release)
					st.Count(fmt.Sprintf("hold:Counter.subscriber:%s x %s", h[second].K, in[0].K))
					sc.Events = ev
					emitHold(nil, st, sc)
				}
			}
		}
	}
	for i := 0; i < nRandom; i++ {
		nt := 2 + r.Intn(3)
		scripts := make([][]op, nt)
		for t := range scripts {
			l := 1 + r.Intn(3)
			for k := 0; k < l; k++ {
				var o op
				switch r.Intn(6) {
				case 0:
					o = op{K: "Set", A: r.Intn(4)}
				case 1, 2:
					o = op{K: "Update", A: r.Intn(5) - 2}
				case 3:
					o = op{K: "CWaitBelow", A: r.Intn(4)}
				case 4:
					o = op{K: "Get"}
				default:
					o = op{K: "CWaitAbove", A: r.Intn(3)}
				}
				scripts[t] = append(scripts[t], o)
			}
		}
		var ev []int
		for _, t := range randomInterleaving(r, lensOf(scripts)) {
			if r.Chance(1, 3) {
				ev = append(ev, nt+0)
			}
			ev = append(ev, t)
			if r.Chance(1, 3) {
				ev = append(ev, 2*nt+0)
			}
		}
		emitHold(nil, st, &scenario{Kind: "cnth", Tag: "random", Scripts: scripts, Events: ev})
	}
}
