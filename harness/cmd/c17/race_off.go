//go:build !race

package main

const raceBuild = false
