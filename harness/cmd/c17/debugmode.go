package main

// The runtime/debug deadlock-detection mode (debug.SetEnabled(true)) is the only run-time mode switch of
// runtime/syncutils: StarvingMutex.RLock/Lock then start a detectDeadlock goroutine per acquisition, which prints
// "possible deadlock while trying to acquire <RLock|Lock> (<timeout>) ..." + the caller's stack trace to os.Stdout
// when the acquisition has not completed after debug.DeadlockDetectionTimeout (default 5 s). It never panics and does
// not touch the lock. Everything in the harness runs in both modes (two invocations, the flag is process-global); this
// file has the stdout capture and the directed cases about the detector itself.

import (
	"bytes"
	"fmt"
	"os"
	"runtime"
	"strings"
	"sync"
	"time"

	"github.com/iotaledger/hive.go/runtime/debug"
	"github.com/iotaledger/hive.go/runtime/syncutils"

	"verif/harness/vx"
)

const reportMarker = "possible deadlock while trying to acquire "

// capture: os.Stdout is replaced by a pipe for the life of the process (the harness itself writes only files and stderr).
type capture struct {
	mu  sync.Mutex
	buf bytes.Buffer
}

func startCapture() *capture {
	c := &capture{}
	r, w, err := os.Pipe()
	if err != nil {
		vx.Die("pipe: %v", err)
	}
	os.Stdout = w
	go func() {
		b := make([]byte, 1<<16)
		for {
			n, err := r.Read(b)
			c.mu.Lock()
			c.buf.Write(b[:n])
			c.mu.Unlock()
			if err != nil {
				return
			}
		}
	}()
	return c
}

func (c *capture) reports() int { return c.count(reportMarker) }

func (c *capture) count(sub string) int {
	c.mu.Lock()
	defer c.mu.Unlock()
	return strings.Count(c.buf.String(), sub)
}

func (c *capture) text(max int) string {
	c.mu.Lock()
	defer c.mu.Unlock()
	s := c.buf.String()
	if len(s) > max {
		s = s[:max] + "..."
	}
	return s
}

// waitFor polls cond (every 200 µs) for at most d.
func waitFor(d time.Duration, cond func() bool) bool {
	deadline := time.Now().Add(d)
	for !cond() {
		if time.Now().After(deadline) {
			return cond()
		}
		time.Sleep(200 * time.Microsecond)
	}
	return true
}

func smIs(m *syncutils.StarvingMutex, want string) func() bool {
	return func() bool { return smState(m) == want }
}

// spawn runs f in a goroutine; the channel is closed when f returned, receives true first when f panicked.
func spawn(f func()) chan bool {
	ch := make(chan bool, 1)
	go func() {
		defer close(ch)
		defer func() {
			if r := recover(); r != nil {
				ch <- true
			}
		}()
		f()
	}()
	return ch
}

// finished: the spawned call returned within d; panicked tells how.
func finished(ch chan bool, d time.Duration) (ret bool, panicked bool) {
	select {
	case p, ok := <-ch:
		return true, ok && p
	case <-time.After(d):
		return false, false
	}
}

func detectorCases(st *vx.Stats, c *capture) {
	const wide = 10 * time.Second // margin for everything that has to happen "eventually"
	defTimeout := debug.DeadlockDetectionTimeout
	fail := func(format string, a ...any) {
		failf(st, "detector", "debug mode, debug.DeadlockDetectionTimeout=%v: %s", debug.DeadlockDetectionTimeout, fmt.Sprintf(format, a...))
	}

	// --- A: waits far below the timeout: every acquisition completes, the detectors end with it, nothing is reported
	st.Case("debug-mode:detector-short-waits", true)
	st.Count("free:detector-short-waits")
	debug.DeadlockDetectionTimeout = 3 * time.Second
	g0 := runtime.NumGoroutine()
	r0 := c.reports()
	begin := time.Now()
	m := syncutils.NewStarvingMutex()
	ok := true
	step := func(what string, cond func() bool) {
		if ok && !waitFor(wide, cond) {
			ok = false
			fail("short waits: %s; state %s", what, smState(m))
		}
	}
	m.RLock()
	w1 := spawn(m.Lock)
	step("writer 1 did not park behind the reader", smIs(m, "ra=1 wa=false pw=1 parkedR=0 parkedW=1"))
	w2 := spawn(m.Lock)
	step("writer 2 did not park behind the reader", smIs(m, "ra=1 wa=false pw=2 parkedR=0 parkedW=2"))
	if ok {
		m.RUnlock()
		step("no writer granted after the reader left", smIs(m, "ra=0 wa=true pw=1 parkedR=0 parkedW=1"))
	}
	var r2 chan bool
	if ok {
		r2 = spawn(m.RLock)
		step("reader did not park behind the writer", smIs(m, "ra=0 wa=true pw=1 parkedR=1 parkedW=1"))
	}
	if ok {
		m.Unlock()
		step("second writer not granted by Unlock", smIs(m, "ra=0 wa=true pw=0 parkedR=1 parkedW=0"))
	}
	if ok {
		m.Unlock()
		step("reader not granted by the last Unlock", smIs(m, "ra=1 wa=false pw=0 parkedR=0 parkedW=0"))
	}
	if ok {
		m.RUnlock()
		for _, ch := range []chan bool{w1, w2, r2} {
			if ret, p := finished(ch, wide); !ret || p {
				ok = false
				fail("short waits: a granted Lock/RLock call did not return (returned=%v panicked=%v)", ret, p)
			}
		}
	}
	elapsed := time.Since(begin)
	switch {
	case !ok:
	case elapsed > debug.DeadlockDetectionTimeout/3:
		st.Count("free:detector-short-waits-inconclusive(machine-stalled)")
	default:
		// well before the timeout: every detectDeadlock goroutine must be gone (its acquisition completed)
		gone := waitFor(debug.DeadlockDetectionTimeout/3, func() bool { return runtime.NumGoroutine() <= g0 })
		if !gone {
			// a detector that outlives its acquisition reports a deadlock that does not exist
			waitFor(debug.DeadlockDetectionTimeout+2*time.Second, func() bool { return c.reports() > r0 })
			fail("short waits (all 2 RLock + 2 Lock calls returned within %v): %d goroutine(s) of the deadlock detection still running, %d false deadlock report(s): %s", elapsed, runtime.NumGoroutine()-g0, c.reports()-r0, c.text(600))
			ok = false
		} else if k := c.reports() - r0; k != 0 {
			fail("short waits (all calls returned within %v): %d false deadlock report(s): %s", elapsed, k, c.text(600))
			ok = false
		}
	}
	if !ok {
		return // detector goroutines may still read the timeout: leave it alone
	}

	// --- B: a wait longer than the timeout: reported once, the call keeps waiting (no panic, no grant, new readers are
	// still admitted) and is granted as soon as the holder releases; the same for a reader behind a writer
	st.Case("debug-mode:detector-long-wait", true)
	st.Count("free:detector-long-wait")
	debug.DeadlockDetectionTimeout = 100 * time.Millisecond
	g0 = runtime.NumGoroutine()
	r0 = c.reports()
	m = syncutils.NewStarvingMutex()
	m.RLock()
	w := spawn(m.Lock)
	step("writer did not park behind the reader", smIs(m, "ra=1 wa=false pw=1 parkedR=0 parkedW=1"))
	if ok && !waitFor(wide, func() bool { return c.reports() > r0 }) {
		ok = false
		fail("long wait: a Lock waiting behind a reader for %v was not reported", wide)
	}
	if ok {
		if ret, p := finished(w, 3*debug.DeadlockDetectionTimeout); ret {
			ok = false
			fail("long wait: the waiting Lock returned (panicked=%v) while the reader still holds the lock; state %s", p, smState(m))
		}
	}
	if ok {
		if s := smState(m); s != "ra=1 wa=false pw=1 parkedR=0 parkedW=1" {
			ok = false
			fail("long wait: state after the deadlock report is %s", s)
		}
		if k := c.count(reportMarker + "Lock "); k < 1 || c.reports()-r0 != 1 {
			ok = false
			fail("long wait: %d report(s) for one waiting Lock: %s", c.reports()-r0, c.text(600))
		}
	}
	if ok {
		// a blocked Lock does not exclude new readers (documented), reported or not
		if !within(wide, func() { m.RLock(); m.RUnlock() }) {
			ok = false
			fail("long wait: a second reader is not admitted while the reported Lock waits; state %s", smState(m))
		}
	}
	if ok {
		m.RUnlock()
		if ret, p := finished(w, wide); !ret || p {
			ok = false
			fail("long wait: the reported Lock was not granted after the reader released (returned=%v panicked=%v); state %s", ret, p, smState(m))
		} else if s := smState(m); s != "ra=0 wa=true pw=0 parkedR=0 parkedW=0" {
			ok = false
			fail("long wait: state after the grant is %s", s)
		}
	}
	if ok {
		r1 := c.reports()
		rd := spawn(m.RLock)
		step("reader did not park behind the writer", smIs(m, "ra=0 wa=true pw=0 parkedR=1 parkedW=0"))
		if ok && !waitFor(wide, func() bool { return c.count(reportMarker+"RLock ") > 0 }) {
			ok = false
			fail("long wait: an RLock waiting behind a writer for %v was not reported", wide)
		}
		if ok {
			if ret, p := finished(rd, 3*debug.DeadlockDetectionTimeout); ret {
				ok = false
				fail("long wait: the waiting RLock returned (panicked=%v) while the writer still holds the lock; state %s", p, smState(m))
			}
		}
		if ok {
			m.Unlock()
			if ret, p := finished(rd, wide); !ret || p {
				ok = false
				fail("long wait: the reported RLock was not granted after Unlock (returned=%v panicked=%v); state %s", ret, p, smState(m))
			} else {
				m.RUnlock()
			}
		}
		if ok && c.reports()-r1 != 1 {
			ok = false
			fail("long wait: %d report(s) for one waiting RLock", c.reports()-r1)
		}
	}
	if ok {
		if s := smState(m); s != "ra=0 wa=false pw=0 parkedR=0 parkedW=0" {
			ok = false
			fail("long wait: final state %s", s)
		}
	}
	if ok && !waitFor(wide, func() bool { return runtime.NumGoroutine() <= g0 }) {
		ok = false
		fail("long wait: %d goroutine(s) left behind after every call returned", runtime.NumGoroutine()-g0)
	}
	if ok {
		debug.DeadlockDetectionTimeout = defTimeout
	}
}

// toggleCases: the mode is switched while an acquisition is blocked (debug.SetEnabled is typically called from the
// application's configuration code while other goroutines already use the locks). The blocked call took its decision
// about the deadlock detector in the old mode and completes in the new one: it must still be granted without a panic
// and leave the lock state clean (fixed in /repo: the call used to re-read the flag and close a nil channel, which left
// pendingWriters raised for good - every later Unlock then signals writers instead of waking the parked readers).
// Runs at the end of the default-mode `free` invocation; the flag is back to false afterwards.
func toggleCases(st *vx.Stats) {
	const wide = 10 * time.Second
	defer debug.SetEnabled(false)
	for _, first := range []string{"Lock", "RLock"} {
		st.Case("toggle-while-"+first+"-blocked", true)
		st.Count("free:toggle-debug-mode-while-" + first + "-is-blocked")
		fail := func(format string, a ...any) {
			failf(st, "toggle", "debug mode toggled while a call is blocked (first blocked call: %s): %s", first, fmt.Sprintf(format, a...))
		}
		debug.SetEnabled(false)
		g0 := runtime.NumGoroutine()
		m := syncutils.NewStarvingMutex()
		// the holder / the blocked call / the state while blocked / the state after the grant, for both halves
		type half struct {
			hold, release, blocked, unblock func()
			name, parked, granted           string
		}
		wr := half{hold: m.RLock, release: m.RUnlock, blocked: m.Lock, unblock: m.Unlock, name: "Lock behind a reader",
			parked: "ra=1 wa=false pw=1 parkedR=0 parkedW=1", granted: "ra=0 wa=true pw=0 parkedR=0 parkedW=0"}
		rd := half{hold: m.Lock, release: m.Unlock, blocked: m.RLock, unblock: m.RUnlock, name: "RLock behind a writer",
			parked: "ra=0 wa=true pw=0 parkedR=1 parkedW=0", granted: "ra=1 wa=false pw=0 parkedR=0 parkedW=0"}
		halves := []half{wr, rd}
		if first == "RLock" {
			halves = []half{rd, wr}
		}
		ok := true
		// first half: blocked in the default mode, granted in debug mode; the granted call is the holder of the
		// second half: blocked in debug mode (detector running), granted in the default mode
		halves[0].hold()
		for i, h := range halves {
			call := spawn(h.blocked)
			if !waitFor(wide, smIs(m, h.parked)) {
				fail("%s did not park; state %s", h.name, smState(m))
				ok = false
				break
			}
			debug.SetEnabled(i == 0)
			if i == 0 {
				h.release()
			} else {
				halves[0].unblock()
			}
			if ret, p := finished(call, wide); !ret || p {
				fail("%s, debug.SetEnabled(%v) while it was blocked, then the holder released: returned=%v panicked=%v; state %s", h.name, i == 0, ret, p, smState(m))
				ok = false
				break
			}
			if s := smState(m); s != h.granted {
				fail("%s, debug.SetEnabled(%v) while it was blocked: state after the grant is %s", h.name, i == 0, s)
				ok = false
				break
			}
		}
		if !ok {
			continue
		}
		halves[1].unblock()
		if s := smState(m); s != "ra=0 wa=false pw=0 parkedR=0 parkedW=0" {
			fail("final state %s", s)
			continue
		}
		if !within(wide, func() { m.Lock(); m.Unlock(); m.RLock(); m.RUnlock() }) {
			fail("the mutex is unusable afterwards; state %s", smState(m))
			continue
		}
		// the detector of the call that was blocked in debug mode ends with the call (otherwise: false deadlock report)
		if !waitFor(debug.DeadlockDetectionTimeout/3, func() bool { return runtime.NumGoroutine() <= g0 }) {
			fail("%d goroutine(s) of the deadlock detection still running after every call returned", runtime.NumGoroutine()-g0)
		}
	}
}
