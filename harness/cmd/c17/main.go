// C17 harness: runtime/syncutils StarvingMutex, DAGMutex, Counter, Stack.
//
// scripted  - scripted arrival orders (M2): every thread of a case is a goroutine that runs its script one operation
//
//	at a time, each operation only when the arrival order releases it. After every release the harness waits
//	until ALL released operations have returned or are parked in a sync.Cond (decided from the ticket counters
//	of the condition variables through the add-only `verif` accessors, no timing assumption), records the
//	lock state + per-thread progress, and judges it with a Go-side oracle. The cases go to Coq.
//
// free      - free-running contention (M3) with holder-set monitors and a stall watchdog; directed misuse-under-recover
//
//	and the PopOrWait yield-hook window (M4).
package main

import (
	"flag"
	"fmt"
	"os"
	"runtime"
	"strings"
	"sync"
	"sync/atomic"
	"time"

	"github.com/iotaledger/hive.go/runtime/debug"
	"github.com/iotaledger/hive.go/runtime/syncutils"

	"verif/harness/vx"
)

// debugMode: the whole process runs with debug.SetEnabled(true) (runtime/debug deadlock-detection mode; the flag is
// process-global, so the two modes are two harness invocations). The lock semantics must not depend on it: the same
// scenarios, the same oracle and the same (mode-independent) Coq model judge both modes.
var debugMode bool

// variant: label of the binary's build-tag variant (`deadlock` / `fakemutex` re-alias syncutils.Mutex/RWMutex; the four
// objects of this property use sync.Mutex/sync.RWMutex directly, so the variants must behave identically)
var variant string

// stdoutCapture: in debug mode everything the library prints (the deadlock reports) is collected here
var stdoutCapture *capture

// abandoned: scripted Lock/RLock/wait calls that were still parked when their scenario ended (misuse and cyclic
// scenarios); their goroutines stay parked for the rest of the process, and in debug mode the detector rightly reports
// them once the process is older than debug.DeadlockDetectionTimeout
var abandoned int

// ---------- operations ----------

type op struct {
	K   string `json:"k"`             // sm: RLock RUnlock Lock Unlock | dag: DRLock DRUnlock DLock DUnlock | cnt: Set Update WaitBelow WaitAbove | stk: Push Pop PopOrWait WaitBelow WaitAbove SetFlag
	A   int    `json:"a,omitempty"`   // value / threshold / delta / entity / flag
	Ids []int  `json:"ids,omitempty"` // dag read ops
}

func (o op) coq() string {
	switch o.K {
	case "RLock":
		return "ARLock"
	case "RUnlock":
		return "ARUnlock"
	case "Lock":
		return "ALock"
	case "Unlock":
		return "AUnlock"
	case "DRLock", "DRUnlock":
		return "(" + o.K + " " + vx.ListOf(o.Ids, vx.Nat) + ")"
	case "DLock", "DUnlock":
		return "(" + o.K + " " + vx.Nat(o.A) + ")"
	case "Set":
		return "(CSet " + vx.Z(int64(o.A)) + ")"
	case "Update":
		return "(CUpdate " + vx.Z(int64(o.A)) + ")"
	case "CWaitBelow":
		return "(CWaitBelow " + vx.Z(int64(o.A)) + ")"
	case "CWaitAbove":
		return "(CWaitAbove " + vx.Z(int64(o.A)) + ")"
	case "Push":
		return "(KPush " + vx.Nat(o.A) + ")"
	case "Pop":
		return "KPop"
	case "PopOrWait":
		return "KPopOrWait"
	case "KWaitBelow":
		return "(KWaitBelow " + vx.Nat(o.A) + ")"
	case "KWaitAbove":
		return "(KWaitAbove " + vx.Nat(o.A) + ")"
	case "SetFlag":
		return "(KSetFlagLocked " + vx.Bool(o.A != 0) + ")"
	case "Size":
		return "KSize"
	}
	panic("op " + o.K)
}

type scenario struct {
	Kind    string `json:"kind"` // sm dag cnt stk
	Tag     string `json:"tag"`
	NEnt    int    `json:"nent,omitempty"`
	Scripts [][]op `json:"scripts"`
	Order   []int  `json:"order"`
	// Balanced: every thread's script releases what it acquired, acquires (dag) along the entity order, no misuse:
	// then no operation may stay parked at the end.
	Balanced bool `json:"balanced"`
	// Debug: the case ran with debug.SetEnabled(true) (part of the failing input)
	Debug bool `json:"debug,omitempty"`
	// Events (kinds stkh / cnth, hold.go): e < n arrival of thread e, n <= e < 2n arm a hold for callback slot e-n,
	// 2n <= e open the gate of slot e-2n; Held = callbacks that were actually held
	Events []int `json:"events,omitempty"`
	Held   int   `json:"held,omitempty"`
	// kinds stkp / cntp (panic.go): 4n <= e < 5n arm a one-shot panic at the entry of callback slot e-4n, 5n <= e after it has
	// read / been held; Panics = callbacks that actually panicked (the caller recovered)
	Panics int `json:"panics,omitempty"`
}

// ---------- worlds ----------

type world interface {
	exec(t int, o op)
	tickets() (uint64, uint64)
	observe() []int64
	// judge the quiescent state: inflight[t] = the operation thread t is parked in (nil if none),
	// completed = operations that returned during the last arrival
	judge(obs []int64, inflight []*op, completed []op) string
}

type smWorld struct{ m *syncutils.StarvingMutex }

func (w *smWorld) exec(t int, o op) {
	switch o.K {
	case "RLock":
		w.m.RLock()
	case "RUnlock":
		w.m.RUnlock()
	case "Lock":
		w.m.Lock()
	case "Unlock":
		w.m.Unlock()
	}
}
func (w *smWorld) tickets() (uint64, uint64) { return w.m.VerifTickets() }
func smObs(m *syncutils.StarvingMutex) []int64 {
	ra, wa, pw, pr, pwk := m.VerifState()
	return []int64{int64(ra), b2i(wa), int64(pw), int64(pr), int64(pwk)}
}
func (w *smWorld) observe() []int64 { return smObs(w.m) }

// smJudge: the quiescent lock state itself must be coherent and no parked thread may face a free lock.
func smJudge(o []int64) string {
	ra, wa, pw, pr, pwk := o[0], o[1], o[2], o[3], o[4]
	switch {
	case ra < 0 || pw < 0:
		return "negative counter"
	case wa == 1 && ra > 0:
		return "writerActive with readersActive > 0"
	case pw != pwk:
		return fmt.Sprintf("pendingWriters=%d but %d writers parked (quiescent)", pw, pwk)
	case pwk > 0 && wa == 0 && ra == 0:
		return "lost wake-up: writer parked while the lock is free"
	case pr > 0 && wa == 0:
		return "lost wake-up: reader parked while no writer is active"
	}
	return ""
}
func (w *smWorld) judge(o []int64, inflight []*op, completed []op) string {
	if s := smJudge(o); s != "" {
		return s
	}
	var pr, pwk int64
	for _, f := range inflight {
		if f != nil {
			switch f.K {
			case "RLock":
				pr++
			case "Lock":
				pwk++
			default:
				return "an " + f.K + " call neither returned nor is it parked on a condition variable"
			}
		}
	}
	if pr != o[3] || pwk != o[4] {
		return "parked goroutines do not match the blocked RLock/Lock calls"
	}
	return ""
}

type dagWorld struct {
	d    *syncutils.DAGMutex[int]
	nent int
	seen []*syncutils.StarvingMutex
}

func (w *dagWorld) exec(t int, o op) {
	switch o.K {
	case "DRLock":
		w.d.RLock(o.Ids...)
	case "DRUnlock":
		w.d.RUnlock(o.Ids...)
	case "DLock":
		w.d.Lock(o.A)
	case "DUnlock":
		w.d.Unlock(o.A)
	}
}
func (w *dagWorld) tickets() (wt uint64, nt uint64) {
	for id := 0; id < w.nent; id++ {
		if m, _, ok := w.d.VerifEntity(id); ok {
			known := false
			for _, s := range w.seen {
				known = known || s == m
			}
			if !known {
				w.seen = append(w.seen, m)
			}
		}
	}
	for _, m := range w.seen {
		a, b := m.VerifTickets()
		wt += a
		nt += b
	}
	return
}
func (w *dagWorld) observe() []int64 {
	var o []int64
	for id := 0; id < w.nent; id++ {
		m, n, ok := w.d.VerifEntity(id)
		if ok {
			o = append(o, 1, int64(n))
			o = append(o, smObs(m)...)
		} else {
			o = append(o, 0, int64(n), 0, 0, 0, 0, 0)
		}
	}
	nm, nc := w.d.VerifSize()
	if nm != nc {
		nm = -1
	}
	return append(o, int64(nm))
}
func (w *dagWorld) judge(o []int64, inflight []*op, completed []op) string {
	for id := 0; id < w.nent; id++ {
		e := o[id*7 : id*7+7]
		if e[0] == 1 {
			if s := smJudge(e[2:]); s != "" {
				return fmt.Sprintf("entity %d: %s", id, s)
			}
			if e[1] <= 0 {
				return fmt.Sprintf("entity %d registered with consumer count %d", id, e[1])
			}
		} else if e[1] != 0 {
			return fmt.Sprintf("entity %d: consumer count %d without a mutex", id, e[1])
		}
	}
	if o[len(o)-1] < 0 {
		return "mutexes and consumerCounter have different sizes"
	}
	return ""
}

type cntWorld struct{ c *syncutils.Counter }

func (w *cntWorld) exec(t int, o op) {
	switch o.K {
	case "Set":
		w.c.Set(o.A)
	case "Update":
		switch o.A {
		case 1:
			w.c.Increase()
		case -1:
			w.c.Decrease()
		default:
			w.c.Update(o.A)
		}
	case "CWaitBelow":
		if o.A == 1 {
			w.c.WaitIsZero()
		} else {
			w.c.WaitIsBelow(o.A)
		}
	case "CWaitAbove":
		w.c.WaitIsAbove(o.A)
	}
}
func (w *cntWorld) tickets() (uint64, uint64) { return w.c.VerifTickets() }
func (w *cntWorld) observe() []int64 {
	v, pb, pa := w.c.VerifState()
	return []int64{int64(v), int64(pb), int64(pa)}
}

// a wait is parked only while its condition is false; a wait that returned during this arrival did so on a true
// condition (nothing changed the value after the arriving operation)
func (w *cntWorld) judge(o []int64, inflight []*op, completed []op) string {
	v := o[0]
	var pb, pa int64
	for _, f := range inflight {
		if f == nil {
			continue
		}
		switch f.K {
		case "CWaitBelow":
			pb++
			if v < int64(f.A) {
				return fmt.Sprintf("lost wake-up: WaitIsBelow(%d) parked while value=%d", f.A, v)
			}
		case "CWaitAbove":
			pa++
			if v > int64(f.A) {
				return fmt.Sprintf("lost wake-up: WaitIsAbove(%d) parked while value=%d", f.A, v)
			}
		default:
			return f.K + " neither returned nor parked"
		}
	}
	if pb != o[1] || pa != o[2] {
		return "parked goroutines do not match the blocked waits"
	}
	for _, c := range completed {
		if c.K == "CWaitBelow" && v >= int64(c.A) {
			return fmt.Sprintf("WaitIsBelow(%d) returned while value=%d", c.A, v)
		}
		if c.K == "CWaitAbove" && v <= int64(c.A) {
			return fmt.Sprintf("WaitIsAbove(%d) returned while value=%d", c.A, v)
		}
	}
	return ""
}

type stkWorld struct {
	s    *syncutils.Stack[int]
	flag atomic.Bool
	mu   sync.Mutex
	pops []int64
}

func (w *stkWorld) logPop(t int, v int, ok bool) {
	w.mu.Lock()
	defer w.mu.Unlock()
	if ok {
		w.pops = append(w.pops, int64(t), int64(v+1))
	} else {
		w.pops = append(w.pops, int64(t), 0)
	}
}
func (w *stkWorld) exec(t int, o op) {
	switch o.K {
	case "Push":
		w.s.Push(o.A)
	case "Pop":
		v, ok := w.s.Pop()
		w.logPop(t, v, ok)
	case "PopOrWait":
		v, ok := w.s.PopOrWait(w.flag.Load)
		w.logPop(t, v, ok)
	case "KWaitBelow":
		if o.A == 1 {
			w.s.WaitIsEmpty()
		} else {
			w.s.WaitSizeIsBelow(o.A)
		}
	case "KWaitAbove":
		w.s.WaitSizeIsAbove(o.A)
	case "SetFlag":
		w.flag.Store(o.A != 0)
		w.s.SignalShutdown()
	}
}
func (w *stkWorld) tickets() (uint64, uint64) { return w.s.VerifTickets() }
func (w *stkWorld) observe() []int64 {
	n, pa, px := w.s.VerifState()
	return []int64{int64(n), int64(pa), int64(px)}
}
func (w *stkWorld) judge(o []int64, inflight []*op, completed []op) string {
	n := o[0]
	var pa, px int64
	for _, f := range inflight {
		if f == nil {
			continue
		}
		switch f.K {
		case "PopOrWait":
			pa++
			if n > 0 || !w.flag.Load() {
				return fmt.Sprintf("lost wake-up: PopOrWait parked with size=%d condition=%v", n, w.flag.Load())
			}
		case "KWaitAbove":
			pa++
			if n > int64(f.A) {
				return fmt.Sprintf("lost wake-up: WaitSizeIsAbove(%d) parked with size=%d", f.A, n)
			}
		case "KWaitBelow":
			px++
			if n < int64(f.A) {
				return fmt.Sprintf("lost wake-up: WaitSizeIsBelow(%d) parked with size=%d", f.A, n)
			}
		default:
			return f.K + " neither returned nor parked"
		}
	}
	if pa != o[1] || px != o[2] {
		return "parked goroutines do not match the blocked waits"
	}
	for _, c := range completed {
		if c.K == "KWaitBelow" && n >= int64(c.A) {
			return fmt.Sprintf("WaitSizeIsBelow(%d) returned with size=%d", c.A, n)
		}
	}
	return ""
}

func b2i(b bool) int64 {
	if b {
		return 1
	}
	return 0
}

func newWorld(sc *scenario) world {
	switch sc.Kind {
	case "sm":
		return &smWorld{m: syncutils.NewStarvingMutex()}
	case "dag":
		return &dagWorld{d: syncutils.NewDAGMutex[int](), nent: sc.NEnt}
	case "cnt":
		return &cntWorld{c: syncutils.NewCounter()}
	}
	w := &stkWorld{s: syncutils.NewStack[int]()}
	w.flag.Store(true)
	return w
}

// ---------- scripted runner ----------

const stallTimeout = 5 * time.Second

// after a few stalled cases the rest of the run is skipped (each stall costs stallTimeout; the failure is already reported)
var stalls int

const maxStalls = 3

// runScenario returns the observation after every arrival and the first oracle complaint.
func runScenario(sc *scenario) (seen [][]int64, fail string) {
	w := newWorld(sc)
	n := len(sc.Scripts)
	rel := make([]chan struct{}, n)
	done := make([]atomic.Int64, n)
	pan := make([]atomic.Int64, n)
	var returned atomic.Int64
	for t := 0; t < n; t++ {
		rel[t] = make(chan struct{}, 1)
		go func(t int) {
			for _, o := range sc.Scripts[t] {
				if _, ok := <-rel[t]; !ok {
					return
				}
				func() {
					defer func() {
						if r := recover(); r != nil {
							pan[t].Add(1)
						}
					}()
					w.exec(t, o)
				}()
				done[t].Add(1)
				returned.Add(1)
			}
		}(t)
	}
	defer func() {
		for t := 0; t < n; t++ {
			close(rel[t])
		}
	}()
	released := make([]int, n)
	total := int64(0)
	prevDone := make([]int64, n)
	arrive := func(step int, t int) (progress bool, stalled string) {
		if released[t] < len(sc.Scripts[t]) && int(done[t].Load()) == released[t] {
			released[t]++
			total++
			progress = true
			rel[t] <- struct{}{}
		}
		deadline := time.Now().Add(stallTimeout)
		spins := 0
		for {
			r1 := returned.Load()
			w1, n1 := w.tickets()
			r2 := returned.Load()
			w2, n2 := w.tickets()
			if r1 == r2 && w1 == w2 && n1 == n2 && uint64(total-r1) == w1-n1 {
				break
			}
			spins++
			if spins < 200 {
				runtime.Gosched()
			} else {
				time.Sleep(50 * time.Microsecond)
			}
			if spins%1000 == 0 && time.Now().After(deadline) {
				return progress, fmt.Sprintf("arrival %d: a released operation neither returned nor parked on a condition variable within %v (released=%d returned=%d parked=%d)", step, stallTimeout, total, r2, w2-n2)
			}
		}
		obs := w.observe()
		state := obs
		inflight := make([]*op, n)
		var completed []op
		for u := 0; u < n; u++ {
			d := done[u].Load()
			obs = append(obs, d)
			if int(d) < released[u] {
				inflight[u] = &sc.Scripts[u][released[u]-1]
			}
			for k := prevDone[u]; k < d; k++ {
				completed = append(completed, sc.Scripts[u][k])
			}
			prevDone[u] = d
		}
		if sc.Kind == "sm" || sc.Kind == "dag" {
			for u := 0; u < n; u++ {
				obs = append(obs, pan[u].Load())
			}
		}
		if sc.Kind == "stk" {
			sw := w.(*stkWorld)
			sw.mu.Lock()
			obs = append(obs, sw.pops...)
			sw.mu.Unlock()
		}
		seen = append(seen, obs)
		if fail == "" {
			if s := w.judge(state, inflight, completed); s != "" {
				fail = fmt.Sprintf("arrival %d (thread %d): %s", step, t, s)
			}
		}
		return progress, ""
	}
	for step, t := range sc.Order {
		if _, stalled := arrive(step, t); stalled != "" {
			return seen, stalled
		}
	}
	// round-robin passes until a whole pass releases nothing: operations that were skipped because their thread was
	// parked get their turn (the executed arrivals are appended to the case's order)
	for pass := 0; pass < 16; pass++ {
		any := false
		for t := 0; t < n; t++ {
			if released[t] == len(sc.Scripts[t]) || int(done[t].Load()) < released[t] {
				continue
			}
			sc.Order = append(sc.Order, t)
			p, stalled := arrive(len(sc.Order)-1, t)
			if stalled != "" {
				return seen, stalled
			}
			any = any || p
		}
		if !any {
			break
		}
	}
	for u := 0; u < n; u++ {
		abandoned += released[u] - int(done[u].Load())
	}
	if fail == "" && sc.Balanced {
		for u := 0; u < n; u++ {
			if int(done[u].Load()) != len(sc.Scripts[u]) {
				fail = fmt.Sprintf("thread %d is still blocked in operation %d although every other thread released what it held", u, done[u].Load())
			}
		}
	}
	return seen, fail
}

func (sc *scenario) coq(seen [][]int64) string {
	scr := vx.ListOf(sc.Scripts, func(s []op) string { return vx.ListOf(s, op.coq) })
	ord := vx.ListOf(sc.Order, vx.Nat)
	obs := vx.ListOf(seen, func(o []int64) string { return vx.ListOf(o, vx.Z) })
	switch sc.Kind {
	case "sm":
		return fmt.Sprintf("CS (mkS %s %s %s)", scr, ord, obs)
	case "dag":
		return fmt.Sprintf("CD (mkD %s %s %s %s)", vx.Nat(sc.NEnt), scr, ord, obs)
	case "cnt":
		return fmt.Sprintf("CC (mkC %s %s %s)", scr, ord, obs)
	case "stkh":
		return fmt.Sprintf("CKH (mkKH %s %s %s)", scr, vx.ListOf(sc.Events, vx.Nat), obs)
	}
	return fmt.Sprintf("CK (mkK %s %s %s)", scr, ord, obs)
}

func emit(cf *vx.CasesFile, st *vx.Stats, sc *scenario) {
	if stalls >= maxStalls {
		st.Count("skipped-after-stalls")
		return
	}
	sc.Debug = debugMode
	seen, fail := runScenario(sc)
	if strings.Contains(fail, "neither returned nor parked on a condition variable within") {
		stalls++
	}
	cf.Add(sc.coq(seen))
	parts := []string{sc.Kind}
	parts[0] = caseKey(sc.Kind)
	st.Count("mode:" + modeName())
	blocked := false
	for _, s := range sc.Scripts {
		parts = append(parts, vx.ListOf(s, op.coq))
		for _, o := range s {
			st.Count(sc.Kind + ":" + o.K)
		}
	}
	parts = append(parts, fmt.Sprint(sc.Order))
	for _, o := range seen {
		// somebody parked at this quiescent point
		switch sc.Kind {
		case "sm":
			blocked = blocked || o[3]+o[4] > 0
		case "dag":
			for id := 0; id < sc.NEnt; id++ {
				blocked = blocked || o[id*7+5]+o[id*7+6] > 0
			}
		default:
			blocked = blocked || o[1]+o[2] > 0
		}
	}
	st.Count("cases:" + sc.Kind + ":" + sc.Tag)
	if blocked {
		st.Count("cases-with-a-parked-operation:" + sc.Kind)
	}
	st.Case(strings.Join(parts, "|"), blocked)
	st.CaseIndex = append(st.CaseIndex, sc)
	if len(st.Samples) < 4 && blocked && sc.Tag != "directed" {
		st.Sample(map[string]any{"scenario": sc, "observed": seen}, 4)
	}
	if fail != "" {
		st.Fail(map[string]any{"sig": "", "scenario": sc, "why": fail, "observed": seen})
	}
}

// ---------- generators ----------

// all interleavings of threads with the given script lengths
func interleavings(lens []int) [][]int {
	var res [][]int
	left := append([]int(nil), lens...)
	total := 0
	for _, l := range lens {
		total += l
	}
	cur := make([]int, 0, total)
	var rec func()
	rec = func() {
		if len(cur) == total {
			res = append(res, append([]int(nil), cur...))
			return
		}
		for t := range left {
			if left[t] > 0 {
				left[t]--
				cur = append(cur, t)
				rec()
				cur = cur[:len(cur)-1]
				left[t]++
			}
		}
	}
	rec()
	return res
}

func randomInterleaving(r *vx.Rng, lens []int) []int {
	left := append([]int(nil), lens...)
	var cur []int
	for {
		var cand []int
		for t, l := range left {
			if l > 0 {
				cand = append(cand, t)
			}
		}
		if len(cand) == 0 {
			return cur
		}
		t := vx.Pick(r, cand)
		left[t]--
		cur = append(cur, t)
	}
}

// the arrival order of a case: the interleaving, then round-robin passes so that operations skipped because their
// thread was parked get their turn
func withTail(order []int, lens []int) []int {
	return append([]int(nil), order...) // the runner appends the round-robin passes it actually executed
}

func lensOf(s [][]op) []int {
	l := make([]int, len(s))
	for i := range s {
		l[i] = len(s[i])
	}
	return l
}

func ops(ks ...string) []op {
	o := make([]op, len(ks))
	for i, k := range ks {
		o[i] = op{K: k}
	}
	return o
}

var smBalanced = [][]op{
	ops("Lock", "Unlock"), ops("RLock", "RUnlock"),
	ops("Lock", "Unlock", "RLock", "RUnlock"), ops("RLock", "RUnlock", "Lock", "Unlock"),
	ops("Lock", "Unlock", "Lock", "Unlock"), ops("RLock", "RUnlock", "RLock", "RUnlock"),
}

func product(n int, k int, f func(choice []int)) {
	c := make([]int, n)
	var rec func(i int)
	rec = func(i int) {
		if i == n {
			f(c)
			return
		}
		for x := 0; x < k; x++ {
			c[i] = x
			rec(i + 1)
		}
	}
	rec(0)
}

func genSM(r *vx.Rng, cf *vx.CasesFile, st *vx.Stats, nRandom int, thorough bool) {
	// directed: reader queued behind two writers; handoff; misuse
	directed := []scenario{
		{Scripts: [][]op{ops("Lock", "Unlock"), ops("Lock", "Unlock"), ops("Lock", "Unlock"), ops("RLock", "RUnlock")}, Order: []int{0, 1, 2, 3, 0, 1, 2, 3, 1, 2, 3}, Balanced: true},
		{Scripts: [][]op{ops("Lock", "Unlock"), ops("RLock", "RUnlock"), ops("RLock", "RUnlock"), ops("RLock", "RUnlock")}, Order: []int{0, 1, 2, 3, 0, 1, 2, 3}, Balanced: true},
		{Scripts: [][]op{ops("RLock", "RUnlock"), ops("RLock", "RUnlock"), ops("Lock", "Unlock"), ops("Lock", "Unlock")}, Order: []int{0, 1, 2, 3, 0, 1, 2, 3, 2, 3}, Balanced: true},
		{Scripts: [][]op{ops("RUnlock", "RLock", "RUnlock"), ops("Lock", "Unlock")}, Order: []int{0, 0, 1, 0, 1, 1}},
		{Scripts: [][]op{ops("RLock", "Unlock", "RUnlock"), ops("Lock", "Unlock")}, Order: []int{0, 1, 0, 0, 1, 1}},
		{Scripts: [][]op{ops("Unlock", "Lock", "Unlock", "Unlock"), ops("RLock", "RUnlock", "RUnlock")}, Order: []int{0, 0, 1, 0, 1, 1, 0, 1}},
		{Scripts: [][]op{ops("Lock"), ops("RLock", "RUnlock"), ops("Unlock", "Lock")}, Order: []int{0, 1, 2, 1, 2, 1}},
	}
	for i := range directed {
		directed[i].Kind, directed[i].Tag = "sm", "directed"
		emit(cf, st, &directed[i])
	}
	// exhaustive: n threads x {writer, reader} x all arrival orders
	sizes := []int{2, 3}
	if thorough {
		sizes = []int{2, 3, 4}
	}
	for _, n := range sizes {
		product(n, 2, func(c []int) {
			scripts := make([][]op, n)
			for i, x := range c {
				scripts[i] = smBalanced[x]
			}
			lens := lensOf(scripts)
			for _, o := range interleavings(lens) {
				if n == 4 && !r.Chance(1, 8) {
					continue
				}
				emit(cf, st, &scenario{Kind: "sm", Tag: fmt.Sprintf("exhaustive-%dx2", n), Scripts: scripts, Order: withTail(o, lens), Balanced: true})
			}
		})
	}
	// exhaustive orders of 2 threads with up to 4 operations each (sampled pairs of scripts)
	for i := 0; i < nRandom/60+1; i++ {
		scripts := [][]op{vx.Pick(r, smBalanced), vx.Pick(r, smBalanced)}
		lens := lensOf(scripts)
		for _, o := range interleavings(lens) {
			emit(cf, st, &scenario{Kind: "sm", Tag: "exhaustive-2xN", Scripts: scripts, Order: withTail(o, lens), Balanced: true})
		}
	}
	// random: balanced scripts, 3..4 threads
	for i := 0; i < nRandom; i++ {
		n := 3 + r.Intn(2)
		scripts := make([][]op, n)
		for t := range scripts {
			scripts[t] = vx.Pick(r, smBalanced)
		}
		lens := lensOf(scripts)
		emit(cf, st, &scenario{Kind: "sm", Tag: "random-balanced", Scripts: scripts, Order: withTail(randomInterleaving(r, lens), lens), Balanced: true})
	}
	// random: arbitrary (misuse) scripts of 1..3 operations, 2..4 threads
	acts := []string{"RLock", "RUnlock", "Lock", "Unlock"}
	for i := 0; i < nRandom; i++ {
		n := 2 + r.Intn(3)
		scripts := make([][]op, n)
		for t := range scripts {
			l := 1 + r.Intn(3)
			for k := 0; k < l; k++ {
				scripts[t] = append(scripts[t], op{K: vx.Pick(r, acts)})
			}
		}
		lens := lensOf(scripts)
		emit(cf, st, &scenario{Kind: "sm", Tag: "random-misuse", Scripts: scripts, Order: withTail(randomInterleaving(r, lens), lens)})
	}
}

// balanced DAG scripts that acquire along the entity order
func dagTemplates(nent int) [][]op {
	var res [][]op
	for a := 0; a < nent; a++ {
		res = append(res, []op{{K: "DLock", A: a}, {K: "DUnlock", A: a}})
		res = append(res, []op{{K: "DRLock", Ids: []int{a}}, {K: "DRUnlock", Ids: []int{a}}})
		for b := a + 1; b < nent; b++ {
			res = append(res, []op{{K: "DRLock", Ids: []int{a, b}}, {K: "DRUnlock", Ids: []int{a, b}}})
			res = append(res, []op{{K: "DRLock", Ids: []int{a, b}}, {K: "DRUnlock", Ids: []int{b, a}}})
			res = append(res, []op{{K: "DRLock", Ids: []int{a}}, {K: "DLock", A: b}, {K: "DUnlock", A: b}, {K: "DRUnlock", Ids: []int{a}}})
			res = append(res, []op{{K: "DLock", A: a}, {K: "DLock", A: b}, {K: "DUnlock", A: b}, {K: "DUnlock", A: a}})
			res = append(res, []op{{K: "DLock", A: a}, {K: "DRLock", Ids: []int{b}}, {K: "DUnlock", A: a}, {K: "DRUnlock", Ids: []int{b}}})
		}
	}
	if nent >= 3 {
		res = append(res, []op{{K: "DRLock", Ids: []int{0, 1, 2}}, {K: "DRUnlock", Ids: []int{0, 1, 2}}})
	}
	return res
}

func genDAG(r *vx.Rng, cf *vx.CasesFile, st *vx.Stats, nRandom int, thorough bool) {
	directed := []scenario{
		// the example of the DAGMutex doc comment
		{NEnt: 2, Scripts: [][]op{{{K: "DLock", A: 0}, {K: "DUnlock", A: 0}}, {{K: "DLock", A: 1}, {K: "DUnlock", A: 1}}, {{K: "DRLock", Ids: []int{0, 1}}, {K: "DRUnlock", Ids: []int{0, 1}}}}, Order: []int{0, 2, 1, 0, 1, 2, 2}, Balanced: true},
		// misuse: unlock of an unregistered id, then the structure must still work
		{NEnt: 2, Scripts: [][]op{{{K: "DUnlock", A: 1}, {K: "DLock", A: 1}, {K: "DUnlock", A: 1}}, {{K: "DRUnlock", Ids: []int{0}}, {K: "DLock", A: 0}}}, Order: []int{0, 1, 0, 1, 0}},
		// misuse: RUnlock(0, 1) with 1 never locked while a writer waits for 0 (fixed 56f0939): the writer must be granted
		{NEnt: 2, Scripts: [][]op{{{K: "DRLock", Ids: []int{0}}, {K: "DRUnlock", Ids: []int{0, 1}}}, {{K: "DLock", A: 0}, {K: "DUnlock", A: 0}}}, Order: []int{0, 1, 0, 1}},
		// wrong-mode unlock through the DAG: StarvingMutex.Unlock panics while readers are active
		{NEnt: 1, Scripts: [][]op{{{K: "DRLock", Ids: []int{0}}, {K: "DRUnlock", Ids: []int{0}}}, {{K: "DRLock", Ids: []int{0}}, {K: "DUnlock", A: 0}, {K: "DRUnlock", Ids: []int{0}}}}, Order: []int{0, 1, 1, 0, 1}},
		// cyclic acquisition deadlocks (both sides must agree that both threads stay parked)
		{NEnt: 2, Scripts: [][]op{{{K: "DLock", A: 0}, {K: "DLock", A: 1}}, {{K: "DLock", A: 1}, {K: "DLock", A: 0}}}, Order: []int{0, 1, 0, 1, 0, 1}},
	}
	for i := range directed {
		directed[i].Kind, directed[i].Tag = "dag", "directed"
		emit(cf, st, &directed[i])
	}
	// exhaustive orders, 2 threads, every pair of balanced templates on 2 entities (sampled in the quick tier)
	t2 := dagTemplates(2)
	for i := range t2 {
		for j := range t2 {
			if !thorough && !r.Chance(1, 6) {
				continue
			}
			scripts := [][]op{t2[i], t2[j]}
			lens := lensOf(scripts)
			for _, o := range interleavings(lens) {
				emit(cf, st, &scenario{Kind: "dag", Tag: "exhaustive-2", NEnt: 2, Scripts: scripts, Order: withTail(o, lens), Balanced: true})
			}
		}
	}
	// random: 3..4 threads, balanced templates on 3 entities
	t3 := dagTemplates(3)
	for i := 0; i < nRandom; i++ {
		n := 3 + r.Intn(2)
		scripts := make([][]op, n)
		for t := range scripts {
			scripts[t] = vx.Pick(r, t3)
		}
		lens := lensOf(scripts)
		emit(cf, st, &scenario{Kind: "dag", Tag: "random-balanced", NEnt: 3, Scripts: scripts, Order: withTail(randomInterleaving(r, lens), lens), Balanced: true})
	}
	// random: arbitrary scripts (misuse, cycles)
	for i := 0; i < nRandom; i++ {
		n := 2 + r.Intn(2)
		scripts := make([][]op, n)
		for t := range scripts {
			l := 1 + r.Intn(3)
			for k := 0; k < l; k++ {
				var o op
				switch r.Intn(4) {
				case 0:
					o = op{K: "DLock", A: r.Intn(3)}
				case 1:
					o = op{K: "DUnlock", A: r.Intn(3)}
				default:
					ids := []int{r.Intn(3)}
					if r.Bool() {
						ids = append(ids, r.Intn(3))
					}
					if ids[0] > ids[len(ids)-1] && r.Bool() {
						ids[0], ids[len(ids)-1] = ids[len(ids)-1], ids[0]
					}
					o = op{K: vx.Pick(r, []string{"DRLock", "DRUnlock"}), Ids: ids}
				}
				scripts[t] = append(scripts[t], o)
			}
		}
		lens := lensOf(scripts)
		emit(cf, st, &scenario{Kind: "dag", Tag: "random-misuse", NEnt: 3, Scripts: scripts, Order: withTail(randomInterleaving(r, lens), lens)})
	}
}

func genCS(r *vx.Rng, cf *vx.CasesFile, st *vx.Stats, nRandom int) {
	directed := []scenario{
		{Kind: "cnt", Scripts: [][]op{{{K: "Set", A: 2}, {K: "Update", A: -1}, {K: "Update", A: -1}}, {{K: "CWaitBelow", A: 1}}, {{K: "CWaitBelow", A: 2}}, {{K: "CWaitAbove", A: 2}}}, Order: []int{0, 1, 2, 3, 0, 0, 1, 2, 3}},
		{Kind: "cnt", Scripts: [][]op{{{K: "CWaitAbove", A: 0}, {K: "CWaitBelow", A: 1}}, {{K: "CWaitAbove", A: 0}}, {{K: "Update", A: 1}, {K: "Set", A: 0}}}, Order: []int{0, 1, 2, 0, 2, 0}},
		{Kind: "stk", Scripts: [][]op{{{K: "PopOrWait"}, {K: "PopOrWait"}, {K: "PopOrWait"}}, {{K: "Push", A: 7}, {K: "SetFlag", A: 0}}, {{K: "KWaitBelow", A: 1}}}, Order: []int{0, 1, 2, 0, 1, 0, 2}},
		{Kind: "stk", Scripts: [][]op{{{K: "Push", A: 1}, {K: "Push", A: 2}, {K: "Pop"}}, {{K: "KWaitAbove", A: 1}, {K: "KWaitBelow", A: 2}}, {{K: "KWaitBelow", A: 1}, {K: "Pop"}}}, Order: []int{1, 0, 2, 0, 1, 0, 2, 2, 1}},
	}
	for i := range directed {
		directed[i].Tag = "directed"
		emit(cf, st, &directed[i])
	}
	for i := 0; i < nRandom; i++ {
		n := 2 + r.Intn(3)
		scripts := make([][]op, n)
		for t := range scripts {
			l := 1 + r.Intn(3)
			for k := 0; k < l; k++ {
				var o op
				switch r.Intn(5) {
				case 0:
					o = op{K: "Set", A: r.Intn(4)}
				case 1, 2:
					o = op{K: "Update", A: r.Intn(5) - 2}
				case 3:
					o = op{K: "CWaitBelow", A: r.Intn(4)}
				default:
					o = op{K: "CWaitAbove", A: r.Intn(3)}
				}
				scripts[t] = append(scripts[t], o)
			}
		}
		lens := lensOf(scripts)
		emit(cf, st, &scenario{Kind: "cnt", Tag: "random", Scripts: scripts, Order: withTail(randomInterleaving(r, lens), lens)})
	}
	for i := 0; i < nRandom; i++ {
		n := 2 + r.Intn(3)
		scripts := make([][]op, n)
		// one thread may block in PopOrWait (two would race for one element, which the arrival order does not decide);
		// a case uses either PopOrWait or WaitSizeIsAbove (they would race for the same Push)
		usePopWait := r.Bool()
		for t := range scripts {
			l := 1 + r.Intn(3)
			for k := 0; k < l; k++ {
				var o op
				switch r.Intn(7) {
				case 0, 1:
					o = op{K: "Push", A: r.Intn(5)}
				case 2:
					o = op{K: "Pop"}
				case 3:
					o = op{K: "KWaitBelow", A: 1 + r.Intn(2)}
				case 4:
					o = op{K: "SetFlag", A: r.Intn(2)}
				default:
					if usePopWait {
						if t == 0 {
							o = op{K: "PopOrWait"}
						} else {
							o = op{K: "Pop"}
						}
					} else {
						o = op{K: "KWaitAbove", A: r.Intn(2)}
					}
				}
				scripts[t] = append(scripts[t], o)
			}
		}
		lens := lensOf(scripts)
		emit(cf, st, &scenario{Kind: "stk", Tag: "random", Scripts: scripts, Order: withTail(randomInterleaving(r, lens), lens)})
	}
}

func main() {
	if len(os.Args) < 2 {
		vx.Die("usage: hx-c17 scripted|free [--what sm|dag|cs|hold] [--n N] [--thorough] [--debug] [--same-as ref.v] --seed S --out cases.v --stats stats.json")
	}
	fs := flag.NewFlagSet(os.Args[1], flag.ExitOnError)
	what := fs.String("what", "sm", "")
	n := fs.Int("n", 150, "")
	thorough := fs.Bool("thorough", false, "")
	seed := fs.Uint64("seed", 1, "")
	out := fs.String("out", "cases.v", "")
	stats := fs.String("stats", "stats.json", "")
	dbg := fs.Bool("debug", false, "run everything with debug.SetEnabled(true)")
	fs.StringVar(&variant, "variant", "", "label: build tags of this binary besides verif")
	sameAs := fs.String("same-as", "", "cases file of the same generator run in the other mode: when this run's cases are textually identical, no cases file is written (the Coq evaluation of the reference covers them)")
	_ = fs.Parse(os.Args[2:])
	r := vx.NewRng(*seed)
	modeText := "default mode (debug disabled)"
	started := time.Now()
	if *dbg {
		// before any goroutine is started: the flag and os.Stdout are process-global
		stdoutCapture = startCapture()
		debug.SetEnabled(true)
		debugMode = true
		modeText = "debug.SetEnabled(true) (deadlock-detection mode of runtime/debug)"
	}
	switch os.Args[1] {
	case "scripted":
		st := vx.NewStats("scripted arrival orders of 2-4 goroutines x 1-4 operations on one StarvingMutex / a DAGMutex with 1-3 entities / a Counter / a Stack (exhaustive orders for the small script sets, seeded random otherwise, incl. misuse scripts), every family in the default mode, again with debug.SetEnabled(true), and again in binaries built with the tags deadlock / fakemutex; one evaluation = one case = one arrival order in one mode of one binary with the observation after every arrival; distinct = distinct (build variant, mode, scripts, order); non-trivial = at least one operation was parked at some quiescent point")
		cf := &vx.CasesFile{
			Header: "From Coq Require Import ZArith List.\nFrom Verif.C17_Sync Require Import Model Corr.\nImport ListNotations.\n",
			Type:   "case",
			Footer: "Definition M := Eval vm_compute in mismatches cases.\nPrint M.\n",
		}
		switch *what {
		case "sm":
			genSM(r, cf, st, *n, *thorough)
		case "dag":
			genDAG(r, cf, st, *n, *thorough)
		case "hold":
			genHold(r, cf, st, *n)
		default:
			genCS(r, cf, st, *n)
		}
		if c := stdoutCapture; c != nil && stalls == 0 {
			// no scripted wait comes near debug.DeadlockDetectionTimeout, except the calls that were left parked for good
			if k := c.reports(); k > abandoned || k > 0 && time.Since(started) < debug.DeadlockDetectionTimeout {
				st.Fail(map[string]any{"sig": "", "kind": "detector", "mode": modeText, "why": fmt.Sprintf("%d deadlock report(s) printed %v after the start, debug.DeadlockDetectionTimeout=%v, %d call(s) were left parked by scenarios that end blocked; no other scripted operation waited that long", k, time.Since(started), debug.DeadlockDetectionTimeout, abandoned), "output": c.text(2000)})
			}
		}
		if err := cf.Write(*out); err != nil {
			vx.Die("%v", err)
		}
		if *sameAs != "" {
			// the scripted runner is deterministic (quiescence is decided from ticket counters), and the model does not
			// know the mode: identical observations need no second Coq evaluation; any difference is judged by Coq
			a, err1 := os.ReadFile(*out)
			b, err2 := os.ReadFile(*sameAs)
			if err1 == nil && err2 == nil && string(a) == string(b) {
				_ = os.Remove(*out)
				st.Hist["cases-textually-identical-to-the-default-mode-run(covered-by-its-Coq-evaluation)"] += cf.Len()
			} else {
				st.Hist["cases-differing-from-the-default-mode-run(evaluated-in-Coq)"] += cf.Len()
			}
		}
		if err := st.Write(*stats); err != nil {
			vx.Die("%v", err)
		}
	case "free":
		st := vx.NewStats("free-running contention (holder-set monitors, stall watchdog), misuse under recover, PopOrWait window through the yield hook, in the default mode, again with debug.SetEnabled(true) (+ directed deadlock-detector cases: short waits are not reported, a long wait is reported once and still granted; the mode switched while a call is blocked) and in binaries built with the tags deadlock / fakemutex; one evaluation = one run in one mode of one binary")
		if debugMode && !raceBuild {
			detectorCases(st, stdoutCapture)
		}
		freeRuns(r, st, *n)
		if !debugMode {
			toggleCases(st)
		}
		if err := st.Write(*stats); err != nil {
			vx.Die("%v", err)
		}
	default:
		vx.Die("unknown subcommand")
	}
}
