package main

import (
	"fmt"
	"runtime"
	"sync"
	"sync/atomic"
	"time"

	"github.com/iotaledger/hive.go/runtime/debug"
	"github.com/iotaledger/hive.go/runtime/syncutils"

	"verif/harness/vx"
)

const freeTimeout = 20 * time.Second

// within runs f in its own goroutine; false = it did not finish in time (the goroutine is abandoned).
func within(d time.Duration, f func()) bool {
	done := make(chan struct{})
	go func() {
		defer close(done)
		f()
	}()
	select {
	case <-done:
		return true
	case <-time.After(d):
		return false
	}
}

// guard: a panic inside a correctly used lock (e.g. an RUnlock that finds a writer active) must become a reported
// failure with its input, not a crash of the harness; the run is given up at once (the other goroutines may be stuck).
type guard struct {
	once  sync.Once
	abort chan struct{}
	msg   atomic.Value
}

func newGuard() *guard { return &guard{abort: make(chan struct{})} }

func (g *guard) recoverHere() {
	if r := recover(); r != nil {
		g.once.Do(func() {
			g.msg.Store(fmt.Sprint(r))
			close(g.abort)
		})
	}
}

func (g *guard) panicked() (string, bool) {
	s, ok := g.msg.Load().(string)
	return s, ok
}

// withinOrAbort is within that also gives up when the guard fires.
func withinOrAbort(d time.Duration, g *guard, f func()) bool {
	done := make(chan struct{})
	go func() {
		defer close(done)
		f()
	}()
	select {
	case <-done:
		return true
	case <-g.abort:
		return false
	case <-time.After(d):
		return false
	}
}

func panics(f func()) (p bool) {
	defer func() {
		if r := recover(); r != nil {
			p = true
		}
	}()
	f()
	return false
}

func smState(m *syncutils.StarvingMutex) string {
	ra, wa, pw, pr, pwk := m.VerifState()
	return fmt.Sprintf("ra=%d wa=%v pw=%d parkedR=%d parkedW=%d", ra, wa, pw, pr, pwk)
}

func failf(st *vx.Stats, kind string, format string, a ...any) {
	st.Fail(map[string]any{"sig": "", "kind": kind, "mode": modeName(), "why": fmt.Sprintf(format, a...)})
}

func modeName() string {
	m := "default"
	if debugMode {
		m = "debug.SetEnabled(true)"
	}
	if variant != "" {
		m += ",build-tag:" + variant
	}
	return m
}

// caseKey: runs in different modes / build variants are different cases
func caseKey(k string) string {
	if debugMode {
		k = "debug-mode:" + k
	}
	if variant != "" {
		k = "build-tag-" + variant + ":" + k
	}
	return k
}

// misuse: a wrong unlock panics, changes nothing and leaves the object usable.
func misuse(st *vx.Stats) {
	st.Case(caseKey("misuse"), true)
	usable := func(m *syncutils.StarvingMutex) bool {
		return within(3*time.Second, func() { m.RLock(); m.RUnlock(); m.Lock(); m.Unlock() })
	}
	m := syncutils.NewStarvingMutex()
	if !panics(m.RUnlock) {
		failf(st, "misuse", "RUnlock of a free StarvingMutex did not panic")
	}
	if s := smState(m); s != "ra=0 wa=false pw=0 parkedR=0 parkedW=0" || !usable(m) {
		failf(st, "misuse", "after the RUnlock panic: %s usable=%v", s, usable(m))
	}
	m = syncutils.NewStarvingMutex()
	m.RLock()
	if !panics(m.Unlock) {
		failf(st, "misuse", "Unlock with an active reader did not panic")
	}
	if s := smState(m); s != "ra=1 wa=false pw=0 parkedR=0 parkedW=0" {
		failf(st, "misuse", "after the Unlock panic: %s", s)
	}
	if !within(3*time.Second, m.RUnlock) || !usable(m) {
		failf(st, "misuse", "StarvingMutex unusable after the Unlock panic")
	}
	m = syncutils.NewStarvingMutex()
	m.Lock()
	if !panics(m.RUnlock) {
		failf(st, "misuse", "RUnlock with an active writer did not panic")
	}
	if s := smState(m); s != "ra=0 wa=true pw=0 parkedR=0 parkedW=0" {
		failf(st, "misuse", "after the RUnlock-under-writer panic: %s", s)
	}
	if !within(3*time.Second, m.Unlock) || !usable(m) {
		failf(st, "misuse", "StarvingMutex unusable after the RUnlock-under-writer panic")
	}
	m = syncutils.NewStarvingMutex()
	if panics(m.Unlock) || smState(m) != "ra=0 wa=false pw=0 parkedR=0 parkedW=0" || !usable(m) {
		failf(st, "misuse", "Unlock of a free StarvingMutex: %s", smState(m))
	}

	d := syncutils.NewDAGMutex[int]()
	if !panics(func() { d.Unlock(7) }) || !panics(func() { d.RUnlock(7) }) || !panics(func() { d.RUnlock(7, 8) }) {
		failf(st, "misuse", "DAGMutex unlock of an unregistered id did not panic")
	}
	if a, b := d.VerifSize(); a != 0 || b != 0 {
		failf(st, "misuse", "DAGMutex registered something for an unregistered unlock: %d/%d", a, b)
	}
	if !within(3*time.Second, func() {
		d.Lock(7)
		d.Unlock(7)
		d.RLock(1, 7)
		d.RUnlock(1, 7)
		d.Lock(1)
		d.Unlock(1)
	}) {
		failf(st, "misuse", "DAGMutex unusable after the panic of an unregistered unlock")
	}
	// RUnlock(1, 7) with 7 unregistered while a writer waits for 1
	d = syncutils.NewDAGMutex[int]()
	d.RLock(1)
	granted := make(chan struct{})
	go func() { d.Lock(1); close(granted) }()
	parked := within(3*time.Second, func() {
		for {
			if mm, n, ok := d.VerifEntity(1); ok && n == 2 {
				if _, _, _, _, pwk := mm.VerifState(); pwk == 1 {
					return
				}
			}
			time.Sleep(100 * time.Microsecond)
		}
	})
	if !parked {
		failf(st, "misuse", "writer did not park behind the reader")
	}
	if !panics(func() { d.RUnlock(1, 7) }) {
		failf(st, "misuse", "DAGMutex.RUnlock(1, 7) with 7 unregistered did not panic")
	}
	select {
	case <-granted:
	case <-time.After(3 * time.Second):
		failf(st, "misuse", "DAGMutex.RUnlock(1, 7): entity 1 was unregistered but not read-unlocked, the waiting writer is never granted")
	}
}

// contention on one StarvingMutex with a holder-set monitor
func freeSM(r *vx.Rng, st *vx.Stats, run int) {
	g := 3 + r.Intn(6)
	iters := 400
	if debugMode {
		iters = 150 // every acquisition captures a stack trace (1 MiB buffer) and starts a detector goroutine
	}
	writePct := vx.Pick(r, []int{10, 30, 50, 90})
	m := syncutils.NewStarvingMutex()
	var readers, writers, bad atomic.Int64
	seeds := make([]*vx.Rng, g)
	for i := range seeds {
		seeds[i] = r.Fork()
	}
	gd := newGuard()
	ok := withinOrAbort(freeTimeout, gd, func() {
		var wg sync.WaitGroup
		for i := 0; i < g; i++ {
			wg.Add(1)
			go func(rr *vx.Rng) {
				defer wg.Done()
				defer gd.recoverHere()
				for k := 0; k < iters; k++ {
					if rr.Intn(100) < writePct {
						m.Lock()
						if writers.Add(1) != 1 || readers.Load() != 0 {
							bad.Add(1)
						}
						if rr.Chance(1, 4) {
							runtime.Gosched()
						}
						writers.Add(-1)
						m.Unlock()
					} else {
						m.RLock()
						readers.Add(1)
						if writers.Load() != 0 {
							bad.Add(1)
						}
						if rr.Chance(1, 4) {
							runtime.Gosched()
						}
						readers.Add(-1)
						m.RUnlock()
					}
				}
			}(seeds[i])
		}
		wg.Wait()
	})
	st.Case(caseKey(fmt.Sprintf("free-sm-%d", run)), true)
	st.Count("free:sm")
	if p, is := gd.panicked(); is {
		failf(st, "free-sm", "panic %q in a goroutine that only unlocks what it locked (%d goroutines, %d%% writers); %s", p, g, writePct, smState(m))
	} else if !ok {
		failf(st, "free-sm", "stall: %d goroutines (%d%% writers) did not finish; %s", g, writePct, smState(m))
	} else if s := smState(m); s != "ra=0 wa=false pw=0 parkedR=0 parkedW=0" {
		failf(st, "free-sm", "final state %s", s)
	}
	if bad.Load() != 0 {
		failf(st, "free-sm", "exclusion violated %d times (%d goroutines, %d%% writers)", bad.Load(), g, writePct)
	}
}

// contention on a DAGMutex, entities acquired along the order 0 < 1 < 2
func freeDAG(r *vx.Rng, st *vx.Stats, run int) {
	g := 3 + r.Intn(5)
	iters := 300
	if debugMode {
		iters = 100
	}
	d := syncutils.NewDAGMutex[int]()
	var readers, writers [3]atomic.Int64
	var bad atomic.Int64
	rd := func(ids ...int) {
		for _, id := range ids {
			readers[id].Add(1)
			if writers[id].Load() != 0 {
				bad.Add(1)
			}
		}
	}
	rdEnd := func(ids ...int) {
		for _, id := range ids {
			readers[id].Add(-1)
		}
	}
	wrt := func(id int) {
		if writers[id].Add(1) != 1 || readers[id].Load() != 0 {
			bad.Add(1)
		}
	}
	seeds := make([]*vx.Rng, g)
	for i := range seeds {
		seeds[i] = r.Fork()
	}
	gd := newGuard()
	ok := withinOrAbort(freeTimeout, gd, func() {
		var wg sync.WaitGroup
		for i := 0; i < g; i++ {
			wg.Add(1)
			go func(rr *vx.Rng) {
				defer wg.Done()
				defer gd.recoverHere()
				for k := 0; k < iters; k++ {
					a := rr.Intn(3)
					b := a + 1 + rr.Intn(3)
					switch c := rr.Intn(4); {
					case c == 0 || b > 2 && c != 1:
						d.Lock(a)
						wrt(a)
						runtime.Gosched()
						writers[a].Add(-1)
						d.Unlock(a)
					case c == 1 && b > 2:
						d.RLock(a)
						rd(a)
						rdEnd(a)
						d.RUnlock(a)
					case c == 1:
						d.RLock(a, b)
						rd(a, b)
						runtime.Gosched()
						rdEnd(a, b)
						d.RUnlock(a, b)
					case c == 2:
						d.RLock(a)
						rd(a)
						d.Lock(b)
						wrt(b)
						writers[b].Add(-1)
						d.Unlock(b)
						rdEnd(a)
						d.RUnlock(a)
					default:
						d.Lock(a)
						wrt(a)
						d.Lock(b)
						wrt(b)
						writers[b].Add(-1)
						d.Unlock(b)
						writers[a].Add(-1)
						d.Unlock(a)
					}
				}
			}(seeds[i])
		}
		wg.Wait()
	})
	st.Case(caseKey(fmt.Sprintf("free-dag-%d", run)), true)
	st.Count("free:dag")
	if p, is := gd.panicked(); is {
		failf(st, "free-dag", "panic %q in a goroutine that only unlocks what it locked (%d goroutines acquiring along 0<1<2)", p, g)
	} else if !ok {
		failf(st, "free-dag", "stall: %d goroutines acquiring along 0<1<2 did not finish", g)
	} else if a, b := d.VerifSize(); a != 0 || b != 0 {
		failf(st, "free-dag", "entities left registered after every lock was released: %d mutexes, %d counters", a, b)
	}
	if bad.Load() != 0 {
		failf(st, "free-dag", "exclusion violated %d times", bad.Load())
	}
}

// Counter: ping-pong between WaitIsAbove/WaitIsBelow callers (a lost broadcast stalls it) and WaitIsZero after workers
func freeCounter(r *vx.Rng, st *vx.Stats, run int) {
	c := syncutils.NewCounter()
	rounds := 300
	var bad atomic.Int64
	ok := within(freeTimeout, func() {
		var wg sync.WaitGroup
		wg.Add(2)
		go func() {
			defer wg.Done()
			for i := 0; i < rounds; i++ {
				c.WaitIsBelow(1)
				if c.Increase() != 1 {
					bad.Add(1)
				}
			}
		}()
		go func() {
			defer wg.Done()
			for i := 0; i < rounds; i++ {
				c.WaitIsAbove(0)
				if c.Decrease() != 0 {
					bad.Add(1)
				}
			}
		}()
		wg.Wait()
	})
	st.Case(caseKey(fmt.Sprintf("free-counter-%d", run)), true)
	st.Count("free:counter")
	if !ok {
		v, pb, pa := c.VerifState()
		failf(st, "free-counter", "stall in the WaitIsBelow/WaitIsAbove ping-pong: value=%d parkedBelow=%d parkedAbove=%d", v, pb, pa)
	}
	if bad.Load() != 0 {
		failf(st, "free-counter", "a wait returned while its condition was false (%d times)", bad.Load())
	}
	// pending-work pattern
	c = syncutils.NewCounter()
	g := 2 + r.Intn(6)
	ok = within(freeTimeout, func() {
		for i := 0; i < g; i++ {
			c.Increase()
			go func() {
				runtime.Gosched()
				c.Decrease()
			}()
		}
		c.WaitIsZero()
	})
	if v, _, _ := c.VerifState(); !ok || v != 0 {
		failf(st, "free-counter", "WaitIsZero after %d workers: returned=%v value=%d", g, ok, v)
	}
}

// Stack: producers, PopOrWait consumers, WaitIsEmpty, shutdown through the wait condition
func freeStack(r *vx.Rng, st *vx.Stats, run int) {
	s := syncutils.NewStack[int]()
	var running atomic.Bool
	running.Store(true)
	consumers := 1 + r.Intn(4)
	producers := 1 + r.Intn(3)
	per := 200
	got := make([][]int, consumers)
	ok := within(freeTimeout, func() {
		var cw, pwg sync.WaitGroup
		for i := 0; i < consumers; i++ {
			cw.Add(1)
			go func(i int) {
				defer cw.Done()
				for {
					v, ok := s.PopOrWait(running.Load)
					if !ok {
						return
					}
					got[i] = append(got[i], v)
				}
			}(i)
		}
		for p := 0; p < producers; p++ {
			pwg.Add(1)
			go func(p int) {
				defer pwg.Done()
				for k := 0; k < per; k++ {
					s.Push(p*per + k)
					if k%16 == 0 {
						s.WaitSizeIsBelow(8)
					}
				}
			}(p)
		}
		pwg.Wait()
		s.WaitIsEmpty()
		running.Store(false)
		s.SignalShutdown()
		cw.Wait()
	})
	st.Case(caseKey(fmt.Sprintf("free-stack-%d", run)), true)
	st.Count("free:stack")
	if !ok {
		n, pa, px := s.VerifState()
		failf(st, "free-stack", "stall: size=%d parkedAdded=%d parkedRemoved=%d running=%v (%d consumers, %d producers)", n, pa, px, running.Load(), consumers, producers)
		return
	}
	seen := map[int]bool{}
	for _, l := range got {
		for _, v := range l {
			if seen[v] {
				failf(st, "free-stack", "element %d popped twice", v)
			}
			seen[v] = true
		}
	}
	if len(seen) != producers*per {
		failf(st, "free-stack", "%d of %d elements popped", len(seen), producers*per)
	}
}

// M4: the wait condition flips exactly between PopOrWait's evaluation of it and elementAdded.Wait().
// SignalShutdown has to wake the caller (it passes through the stack's mutex, which PopOrWait holds until it is
// registered as a waiter). A bare Broadcast at that point is lost.
func popOrWaitWindow(st *vx.Stats) {
	st.Case(caseKey("popOrWait-window"), true)
	st.Count("free:popOrWait-window")
	s := syncutils.NewStack[int]()
	var running atomic.Bool
	running.Store(true)
	var once sync.Once
	syncutils.VerifYield = func(point string) {
		if point != "stack.PopOrWait:beforeWait" {
			return
		}
		once.Do(func() {
			running.Store(false)
			sig := make(chan struct{})
			go func() { s.SignalShutdown(); close(sig) }()
			select { // give a (wrong) immediate broadcast the time to happen before we park
			case <-sig:
			case <-time.After(30 * time.Millisecond):
			}
		})
	}
	defer func() { syncutils.VerifYield = nil }()
	var ok bool
	ret := within(3*time.Second, func() { _, ok = s.PopOrWait(running.Load) })
	if !ret {
		failf(st, "popOrWait-window", "PopOrWait stays parked although its wait condition became false and SignalShutdown was called (condition flipped between the evaluation and Wait)")
	} else if ok {
		failf(st, "popOrWait-window", "PopOrWait on an empty stack returned success")
	}
}

func freeRuns(r *vx.Rng, st *vx.Stats, n int) {
	st.Count("mode:" + modeName())
	misuse(st)
	popOrWaitWindow(st)
	// a kind of run that failed once is not repeated (a stall costs freeTimeout; the failure is already reported)
	kinds := []func(*vx.Rng, *vx.Stats, int){freeSM, freeDAG, freeCounter, freeStack}
	dead := make([]bool, len(kinds))
	for i := 0; i < n; i++ {
		for k, f := range kinds {
			rr := r.Fork()
			if dead[k] {
				continue
			}
			before := len(st.OracleFailures)
			reports, begin := 0, time.Now()
			if stdoutCapture != nil {
				reports = stdoutCapture.reports()
			}
			f(rr, st, i)
			// debug mode: a run that completed (nothing left blocked) well within the detection timeout had no wait worth
			// a deadlock report
			if c := stdoutCapture; c != nil && len(st.OracleFailures) == before && time.Since(begin) < debug.DeadlockDetectionTimeout/2 {
				if k := c.reports() - reports; k > 0 {
					failf(st, "detector", "%d deadlock report(s) during a contention run that completed within %v (debug.DeadlockDetectionTimeout=%v): %s", k, time.Since(begin), debug.DeadlockDetectionTimeout, c.text(1500))
				}
			}
			dead[k] = len(st.OracleFailures) > before
		}
	}
}
