package main

// Callbacks that panic (round 6): the caller-supplied callbacks of the wait primitives - the Counter's subscribers and
// Stack.PopOrWait's waitCondition - run inside the object's critical section. A callback that panics while the caller of
// Set / Update / Increase / Decrease / PopOrWait recovers (worker pools and event handlers do) must not leak the object's
// mutex: the code releases it with `defer`, so after the recovered panic the object is what the code left at the panic
// point (Counter: the new value is written before the subscribers run; Stack: unchanged) and every wait / update of other
// goroutines works - "a wait returns iff its condition has held since the call", nobody parked on a true condition, nobody
// blocked on a mutex that no running goroutine holds.
//
// The hold runner (hold.go) gets two more one-shot events per callback slot: panic at the entry of the callback / after it
// has read (stack) resp. after it was held at the gate (counter: the operations that arrived meanwhile are queued on the
// mutex when the panic unwinds). Kinds stkp / cntp, judged by the Go-side oracle of the hold family; a leaked mutex shows
// as a released operation that neither returns nor parks (stall watchdog).
//
// Counter: Set / Update broadcast AFTER set() / update() returned, so a panicking subscriber skips the broadcast: a wait
// that was parked before and whose condition the panicking change made true stays parked (known finding
// counter-panicking-subscriber-skips-broadcast, directed case first). The generator steers away from it: an armed panic
// only fires when no wait is parked on the counter (read under valueMutex, so exact).

import (
	"fmt"
	"strings"

	"verif/harness/vx"
)

type holdPanic struct{}

// panicIf is called from inside the callback of slot 2*t+stage: a one-shot armed panic fires (when allowed() says so)
func (g *gates) panicIf(t int, stage int, allowed func() bool) {
	k := 2*t + stage
	if !g.panicArmed[k].Load() || allowed != nil && !allowed() {
		return
	}
	if g.panicArmed[k].CompareAndSwap(true, false) {
		g.panics.Add(1)
		panic(holdPanic{})
	}
}

// nobodyParked: called from the subscriber, i.e. with valueMutex held: sync.Cond.Wait registers before it unlocks
func (w *cntHold) nobodyParked() bool {
	if forcePanicWithParked {
		return true
	}
	a, b := w.c.VerifTickets()
	return a == b
}

// execRecovering runs one scripted operation the way a worker pool does: a panic of the harness's own callback is recovered
func execRecovering(w holdWorld, t int, o op) {
	defer func() {
		if r := recover(); r != nil {
			if _, ok := r.(holdPanic); !ok {
				panic(r)
			}
		}
	}()
	w.exec(t, o)
}

// only the directed known-finding case sets it
var forcePanicWithParked bool

const sigPanicSkipsBroadcast = "counter-panicking-subscriber-skips-broadcast"

func genHoldPanic(r *vx.Rng, st *vx.Stats, nRandom int) {
	const n = 3
	hold, release, holdRead, pEntry, pAfter := n+0, 2*n+0, 3*n+0, 4*n+0, 5*n+0
	// directed: the known finding (a wait parked before the panicking change is not woken)
	{
		sc := &scenario{Kind: "cntp", Tag: "directed-known", Scripts: [][]op{{{K: "Update", A: 1}, {K: "Update", A: -1}}, {{K: "CWaitBelow", A: 1}}, {}},
			Events: []int{0, 1, pEntry, 0}}
		w := stalls
		forcePanicWithParked = true
		seen, fail := runHold(sc)
		forcePanicWithParked = false
		st.Count("cases:cntp:directed-known")
		st.Case("cntp|directed-known", true)
		switch {
		case strings.Contains(fail, "lost wake-up: WaitIsBelow(1) parked while value=0"):
			st.Known = append(st.Known, sigPanicSkipsBroadcast)
		case fail != "":
			st.Fail(map[string]any{"sig": "", "scenario": sc, "why": fail, "observed": seen})
		default:
			st.Count("known-finding-not-reproduced:" + sigPanicSkipsBroadcast)
		}
		stalls = w
	}
	// Counter, systematic: (operation whose subscriber panics) x (panic at entry | held at the gate, operations arrive and
	// queue on the mutex, gate opens, panic) x (waits / updates / Get of another goroutine afterwards) x (follow-up)
	panickers := [][]op{{{K: "Update", A: 1}}, {{K: "Update", A: -1}}, {{K: "Update", A: 2}}, {{K: "Set", A: 2}},
		{{K: "Update", A: 1}, {K: "Update", A: -1}}, {{K: "Set", A: 3}, {K: "Update", A: -3}}, {{K: "Update", A: 2}, {K: "Set", A: 0}}}
	after := [][]op{
		{{K: "CWaitBelow", A: 1}}, {{K: "CWaitBelow", A: 3}}, {{K: "CWaitAbove", A: 0}}, {{K: "CWaitAbove", A: 2}}, {{K: "CWaitAbove", A: -2}}, {{K: "Get"}},
		{{K: "Update", A: -1}}, {{K: "Update", A: 1}}, {{K: "Set", A: 0}}, {{K: "Set", A: 5}}, {{K: "Get"}, {K: "CWaitBelow", A: 4}},
	}
	follow := [][]op{{}, {{K: "Update", A: 1}, {K: "Update", A: -1}}, {{K: "Set", A: 4}, {K: "Set", A: -1}}}
	for _, p := range panickers {
		for _, a := range after {
			for _, f := range follow {
				for mode := 0; mode < 3; mode++ {
					sc := &scenario{Kind: "cntp", Tag: "systematic", Scripts: [][]op{p, a, f}}
					var ev []int
					for k := 0; k+1 < len(p); k++ {
						ev = append(ev, 0)
					}
					switch mode {
					case 0: // panic at the entry of the subscriber, the others arrive afterwards
						ev = append(ev, pEntry, 0)
						for range a {
							ev = append(ev, 1)
						}
					case 1: // held at the gate, the others queue on the mutex, the gate opens, the subscriber panics
						ev = append(ev, hold, pAfter, 0)
						for range a {
							ev = append(ev, 1)
						}
						ev = append(ev, release)
					default: // the operation before the panicking one is held, then as in mode 0
						if len(p) < 2 {
							continue
						}
						ev = []int{hold, 0, 1, release, pAfter, 0}
						for k := 1; k < len(a); k++ {
							ev = append(ev, 1)
						}
					}
					for range f {
						ev = append(ev, 2)
					}
					sc.Events = ev
					st.Count(fmt.Sprintf("panic:Counter.subscriber:%s:%s x %s", []string{"entry", "held-then-panic", "held-before"}[mode], p[len(p)-1].K, a[0].K))
					emitHold(nil, st, sc)
				}
			}
		}
	}
	// Stack, systematic: PopOrWait's waitCondition panics in the first evaluation / in the re-evaluation after a wake-up
	// (SignalShutdown; a Push makes PopOrWait pop without evaluating), at the entry / after it read the flag
	type pre struct {
		name   string
		t0, t2 []op
		events []int // -1 = the panic event
	}
	pres := []pre{
		{"first-evaluation", ops("PopOrWait", "PopOrWait"), nil, []int{-1, 0}},
		{"re-evaluation-after-SignalShutdown", ops("PopOrWait", "PopOrWait"), []op{{K: "SetFlag", A: 1}}, []int{0, -1, 2}},
		{"first-evaluation-after-pop", ops("PopOrWait", "PopOrWait", "PopOrWait"), []op{{K: "Push", A: 3}}, []int{2, 0, -1, 0}},
		{"held-then-panic", ops("PopOrWait", "PopOrWait"), nil, []int{hold, pAfter, 0, 1, release}},
		{"held-after-read-then-panic", ops("PopOrWait", "PopOrWait"), nil, []int{holdRead, pAfter, 0, 1, release}},
	}
	afterS := [][]op{
		{{K: "Push", A: 1}}, {{K: "Pop"}}, {{K: "Size"}}, {{K: "KWaitBelow", A: 1}}, {{K: "KWaitAbove", A: 0}, {K: "Pop"}}, {{K: "SetFlag", A: 0}}, {{K: "SetFlag", A: 1}},
		{{K: "Push", A: 1}, {K: "Push", A: 2}}, {{K: "Push", A: 1}, {K: "KWaitBelow", A: 1}},
	}
	followS := [][]op{{}, {{K: "Push", A: 4}}, {{K: "SetFlag", A: 0}}, {{K: "Push", A: 4}, {K: "Pop"}, {K: "SetFlag", A: 0}}}
	for _, p := range pres {
		for _, a := range afterS {
			for _, f := range followS {
				for stage := 0; stage < 2; stage++ {
					if strings.HasPrefix(p.name, "held") && stage == 1 {
						continue
					}
					sc := &scenario{Kind: "stkp", Tag: "systematic", Scripts: [][]op{p.t0, a, append(append([]op{}, p.t2...), f...)}}
					ev := append([]int(nil), p.events...)
					for i := range ev {
						if ev[i] == -1 {
							ev[i] = []int{pEntry, pAfter}[stage]
						}
					}
					held := strings.HasPrefix(p.name, "held")
					for i := range a {
						if held && i == 0 {
							continue // arrived while the caller was held
						}
						ev = append(ev, 1)
					}
					// the PopOrWait caller comes back after its panic (its next PopOrWait must work as on a fresh stack state)
					ev = append(ev, 0)
					for range f {
						ev = append(ev, 2)
					}
					sc.Events = ev
					st.Count(fmt.Sprintf("panic:PopOrWait.waitCondition:%s:%s x %s", []string{"entry", "after-read"}[stage], p.name, a[0].K))
					emitHold(nil, st, sc)
				}
			}
		}
	}
	// random: the random scripts of the hold family with panic events sprinkled in (holds as well)
	for i := 0; i < nRandom; i++ {
		kind := vx.Pick(r, []string{"cntp", "stkp"})
		nt := 2 + r.Intn(3)
		scripts := make([][]op, nt)
		for t := range scripts {
			l := 1 + r.Intn(3)
			for k := 0; k < l; k++ {
				var o op
				if kind == "cntp" {
					switch r.Intn(6) {
					case 0:
						o = op{K: "Set", A: r.Intn(4)}
					case 1, 2:
						o = op{K: "Update", A: r.Intn(5) - 2}
					case 3:
						o = op{K: "CWaitBelow", A: r.Intn(4)}
					case 4:
						o = op{K: "Get"}
					default:
						o = op{K: "CWaitAbove", A: r.Intn(3)}
					}
				} else {
					switch c := r.Intn(8); {
					case t == 0 && c < 6:
						o = op{K: "PopOrWait"}
					case c < 2 || c == 7:
						o = op{K: "Push", A: r.Intn(5)}
					case c == 2:
						o = op{K: "Pop"}
					case c == 3:
						o = op{K: "KWaitBelow", A: 1 + r.Intn(2)}
					case c == 4 || c == 5:
						o = op{K: "SetFlag", A: r.Intn(2)}
					default:
						o = op{K: "Size"}
					}
				}
				scripts[t] = append(scripts[t], o)
			}
		}
		var ev []int
		for _, t := range randomInterleaving(r, lensOf(scripts)) {
			if r.Chance(1, 3) {
				ev = append(ev, vx.Pick(r, []int{4*nt + 0, 5*nt + 0}))
			}
			if r.Chance(1, 5) {
				ev = append(ev, vx.Pick(r, []int{nt + 0, 3*nt + 0}))
			}
			ev = append(ev, t)
			if r.Chance(1, 3) {
				ev = append(ev, 2*nt+0)
			}
		}
		emitHold(nil, st, &scenario{Kind: kind, Tag: "random", Scripts: scripts, Events: ev})
	}
}
