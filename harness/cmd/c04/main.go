// C04 harness: runs operation histories over a tree of mapdb realm views, flushkv/debug wrapper stacks and
// batches on the real code; records every return value / consumer callback and the debug-callback log as
// Coq terms (cases.v) and judges every observation against an independent Go reference (one map keyed by
// realm||key).  Every buffer handed to the store is scribbled on right after the call returned and every
// buffer handed out by the store is scribbled on after it was recorded (aliasing probe).
// Round 2: Iterate/IterateKeys consumers may call back into the store (op.Script: the operations performed at
// callback 0, 1, ... through any view / wrapper / batch); the one-map reference delivers the snapshot taken at
// the start of the call and applies the nested operations in order.
package main

import (
	"encoding/json"
	"errors"
	"flag"
	"fmt"
	"os"
	"strings"
	"time"

	"github.com/iotaledger/hive.go/kvstore"
	"github.com/iotaledger/hive.go/kvstore/debug"
	"github.com/iotaledger/hive.go/kvstore/flushkv"
	"github.com/iotaledger/hive.go/kvstore/mapdb"

	"verif/harness/vx"
)

type op struct {
	K       string `json:"k"`
	H       int    `json:"h"`           // view or batch handle
	A       []byte `json:"a,omitempty"` // key / prefix / realm
	B       []byte `json:"b,omitempty"` // value
	Dir     int    `json:"dir,omitempty"`
	Lim     int    `json:"lim,omitempty"`
	ID      uint64 `json:"id,omitempty"`
	Filters []byte `json:"filters,omitempty"`
	NoCb    bool   `json:"nocb,omitempty"` // wrapdebug: debug.New(store, nil, filters...) - no access callback (model: the log filter is constantly false = mask 0)
	Script  [][]op `json:"script,omitempty"` // iter / iterkeys only: what the consumer does to the store at callback j
}

func (o op) reentrant() bool { return (o.K == "iter" || o.K == "iterkeys") && len(o.Script) > 0 }

// hcoq: the operation as a history element (Model.hop)
func (o op) hcoq() string {
	if !o.reentrant() {
		return "HOp (" + o.coq() + ")"
	}
	return fmt.Sprintf("HIterRe %s %s %s %s %s %s", vx.Nat(o.H), vx.Bool(o.K == "iterkeys"), vx.Bytes(o.A), dirNames[o.Dir], vx.Nat(o.Lim),
		vx.ListOf(o.Script, func(l []op) string { return vx.ListOf(l, op.coq) }))
}

// nested: an operation performed inside a consumer callback is always a plain one
func nested(o op) op {
	o.Script = nil
	return o
}

var dirNames = []string{"DDefault", "DFwd", "DBwd", "DBad"}

func (o op) coq() string {
	h := vx.Nat(o.H)
	kv := func(inner string) string { return fmt.Sprintf("OpKV %s (%s)", h, inner) }
	switch o.K {
	case "withrealm":
		return fmt.Sprintf("OpWithRealm %s %s", h, vx.Bytes(o.A))
	case "withext":
		return fmt.Sprintf("OpWithExtRealm %s %s", h, vx.Bytes(o.A))
	case "wrapflush":
		return "OpWrapFlush " + h
	case "wrapdebug":
		if o.NoCb {
			return fmt.Sprintf("OpWrapDebug %s %s nocb_filters", h, vx.N(o.ID))
		}
		return fmt.Sprintf("OpWrapDebug %s %s %s", h, vx.N(o.ID), vx.Bytes(o.Filters))
	case "realm":
		return "OpRealm " + h
	case "get":
		return kv("KGet " + vx.Bytes(o.A))
	case "has":
		return kv("KHas " + vx.Bytes(o.A))
	case "set":
		return kv("KSet " + vx.Bytes(o.A) + " " + vx.Bytes(o.B))
	case "delete":
		return kv("KDelete " + vx.Bytes(o.A))
	case "delprefix":
		return kv("KDeletePrefix " + vx.Bytes(o.A))
	case "clear":
		return kv("KClear")
	case "flush":
		return kv("KFlush")
	case "close":
		return kv("KClose")
	case "iter":
		return kv(fmt.Sprintf("KIterate %s %s %s", vx.Bytes(o.A), dirNames[o.Dir], vx.Nat(o.Lim)))
	case "iterkeys":
		return kv(fmt.Sprintf("KIterateKeys %s %s %s", vx.Bytes(o.A), dirNames[o.Dir], vx.Nat(o.Lim)))
	case "batched":
		return "OpBatched " + h
	case "bset":
		return fmt.Sprintf("OpBSet %s %s %s", h, vx.Bytes(o.A), vx.Bytes(o.B))
	case "bdel":
		return fmt.Sprintf("OpBDelete %s %s", h, vx.Bytes(o.A))
	case "bcancel":
		return "OpBCancel " + h
	case "bcommit":
		return "OpBCommit " + h
	}
	panic("unknown op " + o.K)
}

// ---------- observations ----------

type kvPair struct{ K, V []byte }

type obs struct {
	Kind string // ok closed notfound val bool kvs keys panic realm other
	Val  []byte
	B    bool
	KVs  []kvPair
	Keys [][]byte
	// results of the calls the consumer made during this call, in the order they returned
	Inner []obs
}

// coqs: the result list of one history operation (own result, then the nested calls' results)
func (x obs) coqs() string {
	l := []string{x.coq()}
	for _, y := range x.Inner {
		l = append(l, y.coq())
	}
	return "[" + strings.Join(l, "; ") + "]"
}

func (x obs) full() string {
	if len(x.Inner) == 0 {
		return x.String()
	}
	l := []string{}
	for _, y := range x.Inner {
		l = append(l, y.String())
	}
	return x.String() + " nested{" + strings.Join(l, " | ") + "}"
}

func (x obs) anyOther() bool {
	if x.Kind == "other" || x.Kind == "hang" {
		return true
	}
	for _, y := range x.Inner {
		if y.anyOther() {
			return true
		}
	}
	return false
}

func (x obs) coq() string {
	switch x.Kind {
	case "ok":
		return "OOk"
	case "closed":
		return "OClosed"
	case "notfound":
		return "ONotFound"
	case "val":
		return "(OVal " + vx.Bytes(x.Val) + ")"
	case "bool":
		return "(OBool " + vx.Bool(x.B) + ")"
	case "kvs":
		return "(OKVs " + vx.ListOf(x.KVs, func(p kvPair) string { return vx.Pair(vx.Bytes(p.K), vx.Bytes(p.V)) }) + ")"
	case "keys":
		return "(OKeys " + vx.ListOf(x.Keys, vx.Bytes) + ")"
	case "panic":
		return "OPanic"
	case "realm":
		return "(ORealm " + vx.Bytes(x.Val) + ")"
	}
	return "OBadHandle" // an error outside the two classes, a hang: never equal to a model output
}

func (x obs) String() string {
	switch x.Kind {
	case "val", "realm":
		return fmt.Sprintf("%s %x", x.Kind, x.Val)
	case "bool":
		return fmt.Sprintf("bool %v", x.B)
	case "kvs":
		parts := []string{}
		for _, p := range x.KVs {
			parts = append(parts, fmt.Sprintf("%x=%x", p.K, p.V))
		}
		return "kvs [" + strings.Join(parts, " ") + "]"
	case "keys":
		parts := []string{}
		for _, k := range x.Keys {
			parts = append(parts, fmt.Sprintf("%x", k))
		}
		return "keys [" + strings.Join(parts, " ") + "]"
	}
	return x.Kind
}

type logEnt struct {
	ID     uint64
	Cmd    uint8
	Params [][]byte
}

func (l logEnt) coq() string {
	return fmt.Sprintf("(%s, %s, %s)", vx.N(l.ID), vx.N(uint64(l.Cmd)), vx.ListOf(l.Params, vx.Bytes))
}

func (l logEnt) String() string {
	ps := []string{}
	for _, p := range l.Params {
		ps = append(ps, fmt.Sprintf("%x", p))
	}
	return fmt.Sprintf("%d:%d(%s)", l.ID, l.Cmd, strings.Join(ps, ","))
}

func cp(b []byte) []byte { return append([]byte{}, b...) }

func scribble(b []byte) {
	for i := range b {
		b[i] ^= 0x5a
	}
}

func errObs(err error) obs {
	switch {
	case err == nil:
		return obs{Kind: "ok"}
	case errors.Is(err, kvstore.ErrStoreClosed):
		return obs{Kind: "closed"}
	case errors.Is(err, kvstore.ErrKeyNotFound):
		return obs{Kind: "notfound"}
	}
	return obs{Kind: "other"}
}

// ---------- the implementation side ----------

type impl struct {
	views   []kvstore.KVStore
	batches []kvstore.BatchedMutations
	log     []logEnt
	flushes int // Flush calls that reached the mapdb views (counted by the spy below every wrapper stack)
}

// spy sits directly on every mapdb view (below all flushkv/debug wrappers), forwards everything to the real
// view and counts the Flush calls that arrive: makes flushkv's flush-on-write observable.
type spy struct {
	kvstore.KVStore
	im *impl
}

func (s *spy) Flush() error {
	s.im.flushes++
	return s.KVStore.Flush()
}

func (s *spy) WithRealm(r kvstore.Realm) (kvstore.KVStore, error) {
	n, err := s.KVStore.WithRealm(r)
	if err != nil {
		return nil, err
	}
	return &spy{n, s.im}, nil
}

func (s *spy) WithExtendedRealm(r kvstore.Realm) (kvstore.KVStore, error) {
	n, err := s.KVStore.WithExtendedRealm(r)
	if err != nil {
		return nil, err
	}
	return &spy{n, s.im}, nil
}

func newImpl() *impl {
	im := &impl{}
	im.views = []kvstore.KVStore{&spy{mapdb.NewMapDB(), im}}
	return im
}

func dirArgs(d int) []kvstore.IterDirection {
	switch d {
	case 1:
		return []kvstore.IterDirection{kvstore.IterDirectionForward}
	case 2:
		return []kvstore.IterDirection{kvstore.IterDirectionBackward}
	case 3:
		return []kvstore.IterDirection{kvstore.IterDirection(7)}
	}
	return nil
}

func (im *impl) do(o op) (res obs) {
	defer func() {
		if r := recover(); r != nil {
			res = obs{Kind: "panic"}
		}
	}()
	switch o.K {
	case "bset", "bdel", "bcancel", "bcommit":
		b := im.batches[o.H]
		switch o.K {
		case "bset":
			k, v := cp(o.A), cp(o.B)
			err := b.Set(k, v)
			scribble(k)
			scribble(v)
			return errObs(err)
		case "bdel":
			k := cp(o.A)
			err := b.Delete(k)
			scribble(k)
			return errObs(err)
		case "bcancel":
			b.Cancel()
			return obs{Kind: "ok"}
		default:
			return errObs(b.Commit())
		}
	}
	s := im.views[o.H]
	switch o.K {
	case "withrealm", "withext":
		var n kvstore.KVStore
		var err error
		if o.K == "withrealm" {
			n, err = s.WithRealm(cp(o.A))
		} else {
			r := cp(o.A)
			n, err = s.WithExtendedRealm(r)
			scribble(r)
		}
		if err == nil {
			im.views = append(im.views, n)
		}
		return errObs(err)
	case "wrapflush":
		im.views = append(im.views, flushkv.New(s))
		return obs{Kind: "ok"}
	case "wrapdebug":
		id := o.ID
		cb := func(c debug.Command, params ...[]byte) {
			e := logEnt{ID: id, Cmd: uint8(c)}
			for _, p := range params {
				e.Params = append(e.Params, cp(p))
			}
			im.log = append(im.log, e)
		}
		fl := make([]debug.Command, len(o.Filters))
		for i, f := range o.Filters {
			fl[i] = debug.Command(f)
		}
		if o.NoCb {
			cb = nil
		}
		im.views = append(im.views, debug.New(s, cb, fl...))
		return obs{Kind: "ok"}
	case "realm":
		r := s.Realm()
		res = obs{Kind: "realm", Val: cp(r)}
		scribble(r)
		return res
	case "get":
		k := cp(o.A)
		v, err := s.Get(k)
		scribble(k)
		if err != nil {
			return errObs(err)
		}
		res = obs{Kind: "val", Val: cp(v)}
		scribble(v)
		return res
	case "has":
		k := cp(o.A)
		b, err := s.Has(k)
		scribble(k)
		if err != nil {
			return errObs(err)
		}
		return obs{Kind: "bool", B: b}
	case "set":
		k, v := cp(o.A), cp(o.B)
		err := s.Set(k, v)
		scribble(k)
		scribble(v)
		return errObs(err)
	case "delete":
		k := cp(o.A)
		err := s.Delete(k)
		scribble(k)
		return errObs(err)
	case "delprefix":
		k := cp(o.A)
		err := s.DeletePrefix(k)
		scribble(k)
		return errObs(err)
	case "clear":
		return errObs(s.Clear())
	case "flush":
		return errObs(s.Flush())
	case "close":
		return errObs(s.Close())
	case "iter":
		p := cp(o.A)
		out := obs{Kind: "kvs", KVs: []kvPair{}}
		n := 0
		err := s.Iterate(p, func(k, v []byte) bool {
			out.KVs = append(out.KVs, kvPair{cp(k), cp(v)})
			scribble(k)
			scribble(v)
			if n < len(o.Script) { // the consumer calls back into the store
				for _, sub := range o.Script[n] {
					out.Inner = append(out.Inner, im.do(nested(sub)))
				}
			}
			n++
			return n < o.Lim
		}, dirArgs(o.Dir)...)
		scribble(p)
		if err != nil {
			return errObs(err)
		}
		return out
	case "iterkeys":
		p := cp(o.A)
		out := obs{Kind: "keys", Keys: [][]byte{}}
		n := 0
		err := s.IterateKeys(p, func(k []byte) bool {
			out.Keys = append(out.Keys, cp(k))
			scribble(k)
			if n < len(o.Script) {
				for _, sub := range o.Script[n] {
					out.Inner = append(out.Inner, im.do(nested(sub)))
				}
			}
			n++
			return n < o.Lim
		}, dirArgs(o.Dir)...)
		scribble(p)
		if err != nil {
			return errObs(err)
		}
		return out
	case "batched":
		b, err := s.Batched()
		if err == nil {
			im.batches = append(im.batches, b)
		}
		return errObs(err)
	}
	panic("unknown op")
}

// runHistory executes h on the real code under a watchdog; a hang is reported as outcome "hang" for the
// operation that did not return (the remaining operations are not executed).
func runHistory(h []op) ([]obs, []logEnt, int, bool) {
	type result struct {
		o   []obs
		log []logEnt
		nfl int
	}
	done := make(chan result, 1)
	progress := make(chan obs, len(h)+1)
	go func() {
		im := newImpl()
		var res []obs
		for _, o := range h {
			x := im.do(o)
			res = append(res, x)
			progress <- x
		}
		done <- result{res, im.log, im.flushes}
	}()
	select {
	case r := <-done:
		return r.o, r.log, r.nfl, false
	case <-time.After(20 * time.Second):
		var res []obs
		for {
			select {
			case x := <-progress:
				res = append(res, x)
				continue
			default:
			}
			break
		}
		for len(res) < len(h) {
			res = append(res, obs{Kind: "hang"})
		}
		return res, nil, 0, true
	}
}

// ---------- the Go reference: ONE map keyed by realm||key (independent of the Coq model) ----------

type wrap struct {
	flush bool
	id    uint64
	mask  uint8
}
type refView struct {
	realm []byte
	stack []wrap // outermost first
}
type refBatch struct {
	realm []byte
	stack []wrap
	ops   []op
}
type ref struct {
	m       map[string][]byte
	closed  bool
	views   []refView
	batches []refBatch
	log     []logEnt
	flushes int
	// distribution only: re-entrant iterations / nested calls executed / nested calls that changed an entry of the
	// snapshot that had not been delivered yet (the situation in which a non-snapshot iteration shows)
	reIters, reCalls, reHits int
}

func nFlush(stack []wrap) int {
	n := 0
	for _, w := range stack {
		if w.flush {
			n++
		}
	}
	return n
}

func newRef() *ref { return &ref{m: map[string][]byte{}, views: []refView{{}}} }

func (r *ref) logCall(stack []wrap, cmd uint8, params ...[]byte) {
	for _, w := range stack {
		if !w.flush && w.mask&cmd > 0 {
			e := logEnt{ID: w.id, Cmd: cmd}
			for _, p := range params {
				e.Params = append(e.Params, cp(p))
			}
			r.log = append(r.log, e)
		}
	}
}

func (r *ref) scan(realm, prefix []byte, dir, lim int) []kvPair {
	full := string(realm) + string(prefix)
	keys := []string{}
	for k := range r.m {
		if strings.HasPrefix(k, full) {
			keys = append(keys, k)
		}
	}
	// ascending byte order, by selection (no library sort shared with the implementation)
	for i := range keys {
		for j := i + 1; j < len(keys); j++ {
			if keys[j] < keys[i] {
				keys[i], keys[j] = keys[j], keys[i]
			}
		}
	}
	if dir == 2 {
		for i, j := 0, len(keys)-1; i < j; i, j = i+1, j-1 {
			keys[i], keys[j] = keys[j], keys[i]
		}
	}
	if lim < 1 {
		lim = 1
	}
	out := []kvPair{}
	for _, k := range keys {
		if len(out) == lim {
			break
		}
		out = append(out, kvPair{[]byte(k[len(realm):]), cp(r.m[k])})
	}
	return out
}

// pending: the current content of the map at the snapshot entries that are still to be delivered
func (r *ref) pending(realm []byte, rest []kvPair) string {
	var sb strings.Builder
	for _, p := range rest {
		x, has := r.m[string(realm)+string(p.K)]
		fmt.Fprintf(&sb, "%v:%x;", has, x)
	}
	return sb.String()
}

func (r *ref) do(o op) obs {
	ok, closed := obs{Kind: "ok"}, obs{Kind: "closed"}
	switch o.K {
	case "bset":
		b := &r.batches[o.H]
		r.logCall(b.stack, 16, o.A, o.B)
		b.ops = append(b.ops, o)
		return ok
	case "bdel":
		b := &r.batches[o.H]
		r.logCall(b.stack, 64, o.A)
		b.ops = append(b.ops, o)
		return ok
	case "bcancel":
		r.batches[o.H].ops = nil
		return ok
	case "bcommit":
		if r.closed {
			return closed
		}
		b := r.batches[o.H]
		r.flushes += nFlush(b.stack)
		for _, x := range b.ops {
			k := string(b.realm) + string(x.A)
			if x.K == "bset" {
				r.m[k] = cp(x.B)
			} else {
				delete(r.m, k)
			}
		}
		return ok
	}
	v := r.views[o.H]
	full := string(v.realm) + string(o.A)
	switch o.K {
	case "wrapflush":
		r.views = append(r.views, refView{v.realm, append([]wrap{{flush: true}}, v.stack...)})
		return ok
	case "wrapdebug":
		mask := uint8(255)
		if len(o.Filters) > 0 {
			mask = 0
			for _, f := range o.Filters {
				mask |= f
			}
		}
		if o.NoCb {
			mask = 0 // nothing to report to
		}
		r.views = append(r.views, refView{v.realm, append([]wrap{{id: o.ID, mask: mask}}, v.stack...)})
		return ok
	case "realm":
		return obs{Kind: "realm", Val: cp(v.realm)}
	case "close":
		r.closed = true
		return ok
	}
	// debug wrappers report before the store is asked (also on a closed store)
	switch o.K {
	case "get":
		r.logCall(v.stack, 8, o.A)
	case "has":
		r.logCall(v.stack, 32, o.A)
	case "set":
		r.logCall(v.stack, 16, o.A, o.B)
	case "delete":
		r.logCall(v.stack, 64, o.A)
	case "delprefix":
		r.logCall(v.stack, 128, o.A)
	case "clear":
		r.logCall(v.stack, 4)
	case "iter":
		r.logCall(v.stack, 1, o.A)
	case "iterkeys":
		r.logCall(v.stack, 2, o.A)
	}
	if o.K == "flush" {
		r.flushes++
	}
	if r.closed {
		return closed
	}
	switch o.K {
	case "set", "delete", "delprefix", "clear":
		r.flushes += nFlush(v.stack) // flush-on-write: once per flushkv wrapper
	}
	switch o.K {
	case "withrealm":
		r.views = append(r.views, refView{cp(o.A), v.stack})
	case "withext":
		r.views = append(r.views, refView{append(cp(v.realm), o.A...), v.stack})
	case "get":
		if x, has := r.m[full]; has {
			return obs{Kind: "val", Val: cp(x)}
		}
		return obs{Kind: "notfound"}
	case "has":
		_, has := r.m[full]
		return obs{Kind: "bool", B: has}
	case "set":
		r.m[full] = cp(o.B)
	case "delete":
		delete(r.m, full)
	case "delprefix", "clear":
		for k := range r.m {
			if strings.HasPrefix(k, full) {
				delete(r.m, k)
			}
		}
	case "iter", "iterkeys":
		if o.Dir == 3 {
			return obs{Kind: "panic"}
		}
		// the snapshot: keys and values as they are together now (scan copies the values)
		l := r.scan(v.realm, o.A, o.Dir, o.Lim)
		res := obs{Kind: "kvs", KVs: l}
		if o.K == "iterkeys" {
			ks := [][]byte{}
			for _, p := range l {
				ks = append(ks, p.K)
			}
			res = obs{Kind: "keys", Keys: ks}
		}
		// the consumer is called once per delivered entry and performs its nested calls on the one map
		if len(o.Script) > 0 {
			r.reIters++
		}
		for j := 0; j < len(l) && j < len(o.Script); j++ {
			for _, sub := range o.Script[j] {
				before := r.pending(v.realm, l[j+1:])
				res.Inner = append(res.Inner, r.do(nested(sub)))
				r.reCalls++
				if before != r.pending(v.realm, l[j+1:]) {
					r.reHits++
				}
			}
		}
		return res
	case "batched":
		r.batches = append(r.batches, refBatch{realm: v.realm, stack: v.stack})
	}
	return ok
}

// judge: the property itself on the implementation's observations.
var lastRef *ref // the reference of the last judged history (distribution counters)

func judge(h []op, o []obs, lg []logEnt, nfl int, hung bool) (bool, string) {
	lastRef = nil
	if hung {
		for i, x := range o {
			if x.Kind == "hang" {
				return false, fmt.Sprintf("op %d (%s) did not return within 20 s", i, h[i].hcoq())
			}
		}
		return false, "history did not finish within 20 s"
	}
	r := newRef()
	lastRef = r
	for i, x := range h {
		want := r.do(x)
		if want.coqs() != o[i].coqs() || o[i].anyOther() {
			return false, fmt.Sprintf("op %d %s: implementation %s, one-map reference %s", i, x.hcoq(), o[i].full(), want.full())
		}
	}
	if nfl != r.flushes {
		return false, fmt.Sprintf("%d Flush calls reached the store, flush-on-write reference %d", nfl, r.flushes)
	}
	if len(lg) != len(r.log) {
		return false, fmt.Sprintf("debug log has %d entries, reference %d", len(lg), len(r.log))
	}
	for i := range lg {
		if lg[i].coq() != r.log[i].coq() {
			return false, fmt.Sprintf("debug log entry %d: implementation %s, reference %s", i, lg[i], r.log[i])
		}
	}
	return true, ""
}

// ---------- generation ----------

var realms = [][]byte{{}, {0x00}, {0x00, 0xff}, {0xff}, {0xff, 0xff}, {0x61}}
var alphabet = []byte{0x00, 0x61, 0xff}

func genBytes(r *vx.Rng, maxLen int) []byte {
	n := r.Intn(maxLen + 1)
	if r.Chance(1, 5) {
		n = 0
	}
	b := make([]byte, n)
	for i := range b {
		b[i] = vx.Pick(r, alphabet)
	}
	return b
}

type gen struct {
	r       *vx.Rng
	nviews  int
	nbatch  int
	closed  bool
	counter byte
	realmOf [][]byte // realm of every view handle
	bRealm  [][]byte // realm of every batch handle
	written [][]byte // full keys written so far
	focus   bool     // history concentrating on re-entrant consumers: more entries, long iterations
}

// reIter: an iteration with a re-entrant consumer over a large part of the view (short prefix, mostly no early stop)
func (g *gen) reIter(v int) op {
	rl := g.realmOf[v]
	o := op{K: "iter", H: v, Dir: g.dir(), Lim: 100}
	if g.r.Chance(1, 3) {
		o.K = "iterkeys"
	}
	if g.r.Chance(1, 2) {
		o.A = g.key(rl, 1, true)
	}
	if g.r.Chance(1, 4) {
		o.Lim = 1 + g.r.Intn(4)
	}
	o.Script = g.script(append(cp(rl), o.A...))
	return o
}

// key relative to realm: half of the time (the beginning of) a key that was written through some view
func (g *gen) key(realm []byte, maxLen int, cut bool) []byte {
	if len(g.written) > 0 && g.r.Chance(3, 5) {
		for try := 0; try < 4; try++ {
			w := vx.Pick(g.r, g.written)
			if strings.HasPrefix(string(w), string(realm)) {
				k := cp(w[len(realm):])
				if cut && g.r.Chance(1, 3) {
					k = k[:0]
				} else if cut && len(k) > 0 && g.r.Chance(2, 3) {
					k = k[:g.r.Intn(len(k)+1)]
				}
				return k
			}
		}
	}
	return genBytes(g.r, maxLen)
}

func (g *gen) newView(realm []byte) {
	g.nviews++
	g.realmOf = append(g.realmOf, cp(realm))
}

func (g *gen) value() []byte {
	switch g.r.Intn(6) {
	case 0:
		return []byte{}
	case 1:
		return genBytes(g.r, 2)
	}
	g.counter++
	return []byte{g.counter, 0xff}
}

func (g *gen) dir() int {
	k := g.r.Intn(100)
	switch {
	case k < 35:
		return 0
	case k < 60:
		return 1
	case k < 96:
		return 2
	}
	return 3
}

func (g *gen) lim() int {
	if g.r.Chance(1, 2) {
		return 100
	}
	return 1 + g.r.Intn(4)
}

// setup: a small tree of views (nested / overlapping realms) and wrapper stacks.
func (g *gen) setup() []op {
	h := []op{}
	n := 1 + g.r.Intn(5)
	for i := 0; i < n; i++ {
		v := g.r.Intn(g.nviews)
		switch k := g.r.Intn(10); {
		case k < 3:
			h = append(h, op{K: "withrealm", H: v, A: vx.Pick(g.r, realms)})
			g.newView(h[len(h)-1].A)
		case k < 6:
			h = append(h, op{K: "withext", H: v, A: vx.Pick(g.r, realms)})
			g.newView(append(cp(g.realmOf[v]), h[len(h)-1].A...))
		case k < 8:
			h = append(h, op{K: "wrapflush", H: v})
			g.newView(g.realmOf[v])
		default:
			h = append(h, g.wrapDebug(v))
			g.newView(g.realmOf[v])
		}
	}
	return h
}

func (g *gen) wrapDebug(v int) op {
	var fl []byte
	switch g.r.Intn(5) {
	case 0: // no filter = all commands
	case 4:
		fl = []byte{255} // all commands, spelled out
	case 1:
		fl = []byte{byte(1 << g.r.Intn(8))}
	case 2:
		fl = []byte{byte(1 << g.r.Intn(8)), byte(1 << g.r.Intn(8)), byte(g.r.Intn(256))}
	default:
		fl = []byte{0}
	}
	// (round 5) one debug wrapper in three has no access callback
	return op{K: "wrapdebug", H: v, ID: uint64(1 + g.r.Intn(3)), Filters: fl, NoCb: g.r.Chance(1, 3)}
}

// wrapperCorners (round 5): wrapper option corner values. For every debug configuration - callback nil / present x filter
// absent (= all commands), each single command, all commands spelled out, the zero filter - and four stackings (debug on the
// root, a realm view OF the debug store, flushkv over debug, debug over flushkv over a nil-callback debug) one history that
// sends every command, direct and through a batch, through the wrapper.
func wrapperCorners() [][]op {
	var out [][]op
	filters := [][]byte{nil, {255}, {0}}
	for i := 0; i < 8; i++ {
		filters = append(filters, []byte{1 << i})
	}
	for _, nocb := range []bool{true, false} {
		for _, fl := range filters {
			for stack := 0; stack < 4; stack++ {
				h := []op{{K: "set", H: 0, A: b(0x61, 1), B: b(1)}, {K: "set", H: 0, A: b(0x61, 2), B: b(2)}, {K: "set", H: 0, A: b(0x62), B: b(3)}}
				w := op{K: "wrapdebug", H: 0, ID: 1, Filters: fl, NoCb: nocb}
				v := 1 // the view under test
				p := []byte{0x61}
				switch stack {
				case 0:
					h = append(h, w)
				case 1:
					h = append(h, w, op{K: "withrealm", H: 1, A: b(0x61)})
					v, p = 2, nil
				case 2:
					h = append(h, w, op{K: "wrapflush", H: 1})
					v = 2
				case 3:
					w2 := w
					w2.H, w2.ID = 2, 2
					h = append(h, op{K: "wrapdebug", H: 0, ID: 3, NoCb: true}, op{K: "wrapflush", H: 1}, w2)
					v = 3
				}
				k := func(x ...byte) []byte { return append(cp(p), x...) }
				h = append(h, op{K: "get", H: v, A: k(1)}, op{K: "has", H: v, A: k(2)}, op{K: "set", H: v, A: k(3), B: b(4)}, op{K: "delete", H: v, A: k(1)},
					op{K: "iter", H: v, A: k(), Lim: 100}, op{K: "iterkeys", H: v, A: k(), Lim: 100, Dir: 2},
					op{K: "batched", H: v}, op{K: "bset", H: 0, A: k(5), B: b(5)}, op{K: "bdel", H: 0, A: k(2)}, op{K: "bdel", H: 0, A: k(9)}, op{K: "bcommit", H: 0},
					op{K: "iter", H: 0, Lim: 100}, op{K: "delprefix", H: v, A: k(3)}, op{K: "flush", H: v}, op{K: "iter", H: 0, Lim: 100},
					op{K: "clear", H: v}, op{K: "iter", H: 0, Lim: 100}, op{K: "realm", H: v})
				out = append(out, h)
			}
		}
	}
	return out
}

func (g *gen) next() op {
	v := g.r.Intn(g.nviews)
	rl := g.realmOf[v]
	k := g.r.Intn(100)
	if g.nbatch > 0 && g.r.Chance(1, 3) {
		b := g.r.Intn(g.nbatch)
		switch kk := g.r.Intn(10); {
		case kk < 4:
			o := op{K: "bset", H: b, A: g.key(g.bRealm[b], 2, false), B: g.value()}
			g.written = append(g.written, append(cp(g.bRealm[b]), o.A...))
			return o
		case kk < 7:
			return op{K: "bdel", H: b, A: g.key(g.bRealm[b], 2, false)}
		case kk < 8:
			return op{K: "bcancel", H: b}
		default:
			return op{K: "bcommit", H: b}
		}
	}
	if g.focus && !g.closed {
		switch kk := g.r.Intn(10); {
		case kk < 3:
			return g.reIter(v)
		case kk < 5:
			k = 0 // a Set
		}
	}
	switch {
	case k < 24:
		o := op{K: "set", H: v, A: g.key(rl, 2, false), B: g.value()}
		g.written = append(g.written, append(cp(rl), o.A...))
		return o
	case k < 36:
		return op{K: "get", H: v, A: g.key(rl, 3, false)}
	case k < 42:
		return op{K: "has", H: v, A: g.key(rl, 3, false)}
	case k < 48:
		return op{K: "delete", H: v, A: g.key(rl, 3, false)}
	case k < 52:
		return op{K: "delprefix", H: v, A: g.key(rl, 2, true)}
	case k < 53:
		return op{K: "clear", H: v}
	case k < 67:
		o := op{K: "iter", H: v, A: g.key(rl, 2, true), Dir: g.dir(), Lim: g.lim()}
		if g.r.Chance(1, 2) {
			o.Script = g.script(append(cp(rl), o.A...))
		}
		return o
	case k < 76:
		o := op{K: "iterkeys", H: v, A: g.key(rl, 2, true), Dir: g.dir(), Lim: g.lim()}
		if g.r.Chance(2, 5) {
			o.Script = g.script(append(cp(rl), o.A...))
		}
		return o
	case k < 79:
		return op{K: "flush", H: v}
	case k < 81:
		return op{K: "realm", H: v}
	case k < 89:
		if !g.closed {
			g.nbatch++
			g.bRealm = append(g.bRealm, rl)
		}
		return op{K: "batched", H: v}
	case k < 92:
		o := op{K: "withrealm", H: v, A: vx.Pick(g.r, realms)}
		if !g.closed {
			g.newView(o.A)
		}
		return o
	case k < 95:
		o := op{K: "withext", H: v, A: vx.Pick(g.r, realms)}
		if !g.closed {
			g.newView(append(cp(rl), o.A...))
		}
		return o
	case k < 97:
		g.newView(rl)
		return op{K: "wrapflush", H: v}
	default:
		g.newView(rl)
		return g.wrapDebug(v)
	}
}

// script: what a re-entrant consumer does at callbacks 0..n-1 (1-3 nested calls each, some callbacks passive).
// The nested calls never create handles and never close the store (whether a callback runs depends on the
// store's content, the generator's handle bookkeeping must not); directed cases cover Close inside a callback.
func (g *gen) script(iterFull []byte) [][]op {
	n := 1 + g.r.Intn(3)
	sc := make([][]op, n)
	for j := range sc {
		if j > 0 && g.r.Chance(1, 3) {
			sc[j] = []op{}
			continue
		}
		k := 1 + g.r.Intn(2)
		if g.r.Chance(1, 6) {
			k = 3
		}
		for i := 0; i < k; i++ {
			sc[j] = append(sc[j], g.consumerOp(iterFull))
		}
	}
	return sc
}

// target of a nested call: mostly an entry the running iteration may have in its snapshot (a written full key
// carrying realm||prefix of the iteration), addressed through ANY view whose realm is a prefix of that key
// (the iterated view, its parent, a sibling with the same realm, a wrapper)
func (g *gen) target(iterFull []byte) (int, []byte) {
	if len(g.written) > 0 && g.r.Chance(7, 10) {
		for try := 0; try < 6; try++ {
			w := vx.Pick(g.r, g.written)
			if !strings.HasPrefix(string(w), string(iterFull)) {
				continue
			}
			cands := []int{}
			for v, rl := range g.realmOf {
				if strings.HasPrefix(string(w), string(rl)) {
					cands = append(cands, v)
				}
			}
			v := vx.Pick(g.r, cands) // the root view (empty realm) always qualifies
			return v, cp(w[len(g.realmOf[v]):])
		}
	}
	v := g.r.Intn(g.nviews)
	return v, g.key(g.realmOf[v], 2, false)
}

func (g *gen) consumerOp(iterFull []byte) op {
	if g.nbatch > 0 && g.r.Chance(1, 6) {
		b := g.r.Intn(g.nbatch)
		switch kk := g.r.Intn(10); {
		case kk < 3:
			o := op{K: "bset", H: b, A: g.key(g.bRealm[b], 2, false), B: g.value()}
			g.written = append(g.written, append(cp(g.bRealm[b]), o.A...))
			return o
		case kk < 5:
			return op{K: "bdel", H: b, A: g.key(g.bRealm[b], 2, false)}
		case kk < 6:
			return op{K: "bcancel", H: b}
		default:
			return op{K: "bcommit", H: b}
		}
	}
	v, key := g.target(iterFull)
	rl := g.realmOf[v]
	switch k := g.r.Intn(100); {
	case k < 40:
		o := op{K: "set", H: v, A: key, B: g.value()}
		g.written = append(g.written, append(cp(rl), key...))
		return o
	case k < 62:
		return op{K: "delete", H: v, A: key}
	case k < 70:
		if len(key) > 0 {
			key = key[:g.r.Intn(len(key)+1)]
		}
		return op{K: "delprefix", H: v, A: key}
	case k < 73:
		return op{K: "clear", H: v}
	case k < 85:
		return op{K: "get", H: v, A: key}
	case k < 90:
		return op{K: "has", H: v, A: key}
	case k < 95:
		return op{K: "iter", H: v, A: g.key(rl, 2, true), Dir: g.dir(), Lim: g.lim()}
	case k < 98:
		return op{K: "iterkeys", H: v, A: g.key(rl, 2, true), Dir: g.dir(), Lim: g.lim()}
	default:
		return op{K: "flush", H: v}
	}
}

func genHistory(r *vx.Rng, n int) []op {
	g := &gen{r: r, nviews: 1, realmOf: [][]byte{{}}}
	h := g.setup()
	g.focus = r.Chance(1, 3)
	closeAt := -1
	if r.Chance(1, 3) {
		closeAt = n/2 + r.Intn(n/2+1)
	}
	dump := op{K: "iter", H: 0, Dir: 0, Lim: 1000}
	for len(h) < n {
		if len(h) == closeAt {
			h = append(h, dump, op{K: "close", H: r.Intn(g.nviews)})
			g.closed = true
			continue
		}
		h = append(h, g.next())
	}
	if !g.closed {
		h = append(h, dump)
	}
	return h
}

func b(xs ...byte) []byte { return xs }

func directed() [][]op {
	return [][]op{
		// a80bf96 (repaired): the batch kept the caller's value buffer until Commit (the harness scribbles on it)
		{{K: "batched", H: 0}, {K: "bset", H: 0, A: b(0x6b), B: b(1, 2, 3)}, {K: "bcommit", H: 0}, {K: "get", H: 0, A: b(0x6b)}},
		// straddling realms: view 00 key ff61 = view 00ff key 61; iteration of view 00 with prefix ff sees it
		{{K: "withrealm", H: 0, A: b(0)}, {K: "withext", H: 1, A: b(0xff)}, {K: "set", H: 2, A: b(0x61), B: b(7)},
			{K: "get", H: 1, A: b(0xff, 0x61)}, {K: "iter", H: 1, A: b(0xff), Lim: 100}, {K: "iter", H: 0, Lim: 100, Dir: 2},
			{K: "delprefix", H: 1, A: b(0xff)}, {K: "has", H: 2, A: b(0x61)}},
		// batch: Set then Delete then Set of one key, Delete of another, two commits, cancel
		{{K: "set", H: 0, A: b(2), B: b(9)}, {K: "batched", H: 0}, {K: "bset", H: 0, A: b(1), B: b(1)}, {K: "bdel", H: 0, A: b(1)},
			{K: "bset", H: 0, A: b(1), B: b(2)}, {K: "bdel", H: 0, A: b(2)}, {K: "bset", H: 0, A: b(2), B: b(3)}, {K: "bdel", H: 0, A: b(2)},
			{K: "bcommit", H: 0}, {K: "iter", H: 0, Lim: 100}, {K: "set", H: 0, A: b(2), B: b(5)}, {K: "bcommit", H: 0}, {K: "iter", H: 0, Lim: 100},
			{K: "bcancel", H: 0}, {K: "set", H: 0, A: b(2), B: b(6)}, {K: "bcommit", H: 0}, {K: "iter", H: 0, Lim: 100}},
		// everything fails after Close (through wrappers), batch Set/Delete/Cancel do not
		{{K: "wrapflush", H: 0}, {K: "wrapdebug", H: 1, ID: 1}, {K: "batched", H: 2}, {K: "set", H: 2, A: b(1), B: b(1)}, {K: "close", H: 1},
			{K: "get", H: 2, A: b(1)}, {K: "has", H: 0, A: b(1)}, {K: "set", H: 1, A: b(1), B: b(2)}, {K: "delete", H: 2, A: b(1)},
			{K: "delprefix", H: 0}, {K: "clear", H: 1}, {K: "iter", H: 2, Lim: 1}, {K: "iterkeys", H: 0, Lim: 1, Dir: 3}, {K: "flush", H: 1},
			{K: "withrealm", H: 2, A: b(1)}, {K: "withext", H: 0, A: b(1)}, {K: "batched", H: 1}, {K: "bset", H: 0, A: b(1), B: b(3)},
			{K: "bdel", H: 0, A: b(2)}, {K: "bcommit", H: 0}, {K: "bcancel", H: 0}, {K: "close", H: 0}, {K: "realm", H: 2}},
		// 0xff-terminated prefixes and realms, both directions, stop index, invalid direction
		{{K: "withrealm", H: 0, A: b(0xff)}, {K: "set", H: 1, A: b(0xff), B: b(1)}, {K: "set", H: 1, A: b(), B: b(2)}, {K: "set", H: 1, A: b(0xff, 0xff), B: b(3)},
			{K: "set", H: 0, A: b(0xfe, 0xff), B: b(4)}, {K: "set", H: 1, A: b(0xff, 0), B: b(5)}, {K: "iter", H: 1, A: b(0xff), Dir: 2, Lim: 2},
			{K: "iterkeys", H: 1, A: b(0xff), Dir: 1, Lim: 100}, {K: "iterkeys", H: 0, A: b(0xff, 0xff), Dir: 2, Lim: 3}, {K: "iter", H: 1, Dir: 3, Lim: 1},
			{K: "clear", H: 1}, {K: "iter", H: 0, Lim: 100}},
		// re-entrant consumers (round 2): the iteration delivers the snapshot of the call instant.
		// while handling the first entry the consumer rewrites one and removes another of the entries still to come,
		// through the iterated view and through the root view; both directions, Iterate and IterateKeys
		{{K: "withrealm", H: 0, A: b(0x72)}, {K: "set", H: 1, A: b(1), B: b(10)}, {K: "set", H: 1, A: b(2), B: b(20)}, {K: "set", H: 1, A: b(3), B: b(30)}, {K: "set", H: 1, A: b(4), B: b(40)},
			{K: "iter", H: 1, Dir: 1, Lim: 100, Script: [][]op{{{K: "set", H: 1, A: b(2), B: b(21)}, {K: "delete", H: 0, A: b(0x72, 3)}, {K: "get", H: 1, A: b(2)}}}},
			{K: "iter", H: 1, Dir: 2, Lim: 100, Script: [][]op{{{K: "set", H: 1, A: b(2), B: b(22)}, {K: "delete", H: 0, A: b(0x72, 1)}, {K: "set", H: 0, A: b(0x72, 3), B: b(33)}}}},
			{K: "iterkeys", H: 1, Dir: 1, Lim: 100, Script: [][]op{{{K: "delete", H: 1, A: b(3)}, {K: "set", H: 1, A: b(5), B: b(50)}}, {}, {{K: "has", H: 1, A: b(3)}}}},
			{K: "iter", H: 0, Lim: 100}},
		// the consumer empties what is being iterated (DeletePrefix / Clear through wrappers, a batch Commit), stops early
		{{K: "withrealm", H: 0, A: b(0)}, {K: "wrapflush", H: 1}, {K: "wrapdebug", H: 2, ID: 1}, {K: "batched", H: 1},
			{K: "set", H: 1, A: b(0xff), B: b(1)}, {K: "set", H: 1, A: b(0xff, 0), B: b(2)}, {K: "set", H: 1, A: b(0xff, 0xff), B: b(3)}, {K: "set", H: 0, A: b(0, 0x61), B: b(4)},
			{K: "bset", H: 0, A: b(0xff, 0), B: b(9)}, {K: "bdel", H: 0, A: b(0xff, 0xff)},
			{K: "iter", H: 3, A: b(0xff), Dir: 2, Lim: 100, Script: [][]op{{{K: "bcommit", H: 0}}, {{K: "get", H: 1, A: b(0xff, 0)}}}},
			{K: "iter", H: 3, A: b(0xff), Lim: 100, Script: [][]op{{{K: "delprefix", H: 2, A: b(0xff)}}, {{K: "set", H: 3, A: b(0xff, 0x61), B: b(5)}}, {{K: "iterkeys", H: 0, Lim: 100}}}},
			{K: "iterkeys", H: 2, Lim: 2, Script: [][]op{{{K: "clear", H: 3}}, {{K: "set", H: 1, A: b(1), B: b(6)}}, {{K: "set", H: 1, A: b(2), B: b(7)}}}},
			{K: "iter", H: 0, Lim: 100}},
		// Close inside a callback: the snapshot is still delivered, every nested call after it fails
		{{K: "set", H: 0, A: b(1), B: b(1)}, {K: "set", H: 0, A: b(2), B: b(2)}, {K: "set", H: 0, A: b(3), B: b(3)},
			{K: "iter", H: 0, Lim: 100, Script: [][]op{{{K: "set", H: 0, A: b(2), B: b(9)}}, {{K: "close", H: 0}, {K: "set", H: 0, A: b(3), B: b(9)}}, {{K: "get", H: 0, A: b(2)}}}},
			{K: "iter", H: 0, Lim: 100, Script: [][]op{{{K: "set", H: 0, A: b(1), B: b(9)}}}}, {K: "get", H: 0, A: b(2)}},
	}
}

// ---------- emission ----------

func nontrivial(h []op, o []obs) bool {
	wrote, read := false, false
	for i, x := range h {
		switch x.K {
		case "set", "bcommit":
			wrote = wrote || o[i].Kind == "ok"
		case "get":
			read = read || o[i].Kind == "val"
		case "iter":
			read = read || len(o[i].KVs) > 0
		case "iterkeys":
			read = read || len(o[i].Keys) > 0
		}
	}
	return wrote && read
}

var hungOnce bool // a call did not return: stop generating (every further history would wait for the watchdog)

func emit(cf *vx.CasesFile, st *vx.Stats, h []op, tag string) {
	if hungOnce {
		return
	}
	o, lg, nfl, hung := runHistory(h)
	hungOnce = hung
	cf.Add(fmt.Sprintf("mk %s %s %s %s", vx.ListOf(h, op.hcoq), vx.ListOf(o, obs.coqs), vx.ListOf(lg, logEnt.coq), vx.Nat(nfl)))
	parts := make([]string, len(h))
	for i, x := range h {
		parts[i] = x.hcoq()
		st.Count("op:" + x.K)
		if x.reentrant() {
			st.Count("op:" + x.K + "-reentrant")
			for _, cb := range x.Script {
				for _, sub := range cb {
					st.Count("nested-op:" + sub.K)
				}
			}
		}
		st.Count("out:" + o[i].Kind)
		if x.K == "iter" || x.K == "iterkeys" {
			st.Count("dir:" + dirNames[x.Dir])
			n := len(o[i].KVs) + len(o[i].Keys)
			if o[i].Kind != "kvs" && o[i].Kind != "keys" {
				continue
			}
			if n > 3 {
				n = 3
			}
			st.Count(fmt.Sprintf("iter-len:%d%s", n, map[bool]string{true: "+", false: ""}[n == 3]))
		}
	}
	st.Count(fmt.Sprintf("log-entries:%d", min(len(lg), 5)))
	st.Count(fmt.Sprintf("flushes:%d", min(nfl, 5)))
	st.Case(strings.Join(parts, ";"), nontrivial(h, o))
	st.CaseIndex = append(st.CaseIndex, map[string]any{"tag": tag, "history": h})
	if tag == "random" {
		obsS := make([]string, len(o))
		for i := range o {
			obsS[i] = o[i].full()
		}
		st.Sample(map[string]any{"history": parts, "observed": obsS}, 2)
	}
	ok, why := judge(h, o, lg, nfl, hung)
	if !ok {
		st.Fail(map[string]any{"sig": "", "history": h, "why": why})
	}
	if lastRef != nil && ok {
		for i := 0; i < lastRef.reIters; i++ {
			st.Count("reentrant-iterations")
		}
		for i := 0; i < lastRef.reCalls; i++ {
			st.Count("nested-calls-executed")
		}
		for i := 0; i < lastRef.reHits; i++ {
			st.Count("nested-calls-changing-an-undelivered-snapshot-entry")
		}
		if lastRef.reHits > 0 {
			st.Count("histories-with-a-write-to-an-undelivered-snapshot-entry")
		}
	}
}

// exhaustive: every history of the given length over a small op alphabet on two nested views + a batch.
func exhaustive(cf *vx.CasesFile, st *vx.Stats, length int) {
	prefix := []op{{K: "withrealm", H: 0, A: b(0)}, {K: "withext", H: 1, A: b(0xff)}, {K: "batched", H: 1}}
	alpha := []op{
		{K: "set", H: 1, A: b(0xff), B: b(1)}, {K: "set", H: 2, A: b(), B: b(2)}, {K: "set", H: 2, A: b(0x61), B: b(3)}, {K: "set", H: 0, A: b(0), B: b(4)},
		{K: "delete", H: 1, A: b(0xff, 0x61)}, {K: "delete", H: 2, A: b()}, {K: "delprefix", H: 1, A: b(0xff)}, {K: "clear", H: 2},
		{K: "bset", H: 0, A: b(0xff), B: b(5)}, {K: "bdel", H: 0, A: b(0xff)}, {K: "bdel", H: 0, A: b()}, {K: "bcommit", H: 0}, {K: "bcancel", H: 0},
		{K: "iter", H: 0, Lim: 100, Dir: 2}, {K: "close", H: 2},
	}
	idx := make([]int, length)
	for {
		h := append([]op{}, prefix...)
		for _, i := range idx {
			h = append(h, alpha[i])
		}
		h = append(h, op{K: "iter", H: 1, Lim: 100}, op{K: "iterkeys", H: 2, Lim: 100, Dir: 2}, op{K: "get", H: 0, A: b(0, 0xff)})
		emit(cf, st, h, "exhaustive")
		if hungOnce {
			return
		}
		k := length - 1
		for k >= 0 {
			idx[k]++
			if idx[k] < len(alpha) {
				break
			}
			idx[k] = 0
			k--
		}
		if k < 0 {
			return
		}
	}
}

func main() {
	if len(os.Args) < 2 || (os.Args[1] != "hist" && os.Args[1] != "exh" && os.Args[1] != "replay") {
		vx.Die("usage: hx-c04 hist|exh|replay [--n N --len L --in file] --seed S --out cases.v --stats stats.json")
	}
	fs := flag.NewFlagSet(os.Args[1], flag.ExitOnError)
	n := fs.Int("n", 400, "")
	maxLen := fs.Int("len", 40, "")
	seed := fs.Uint64("seed", 1, "")
	out := fs.String("out", "cases.v", "")
	stats := fs.String("stats", "stats.json", "")
	in := fs.String("in", "", "JSON history to replay")
	_ = fs.Parse(os.Args[2:])
	r := vx.NewRng(*seed)
	st := vx.NewStats("operation histories over a tree of mapdb realm views (realms {e,00,00ff,ff,ffff,61}, WithRealm/WithExtendedRealm), flushkv/debug wrapper stacks and batches; keys/prefixes of length 0-3 over {00,61,ff}; both iteration directions, default and invalid direction, random stop index; about half of the Iterate / IterateKeys consumers call back into the store (1-3 nested Set/Delete/DeletePrefix/Clear/Get/Has/Iterate/batch calls per callback through any view, wrapper or batch, aimed at entries of the running iteration); Close at a random late point; every caller buffer scribbled after the call, every returned buffer scribbled after recording; distinct = distinct histories; non-trivial = at least one successful write and one read that returned data")
	cf := &vx.CasesFile{
		Header: "From Coq Require Import NArith List.\nFrom Verif.C04_KV Require Import Model Corr.\nImport ListNotations.\nOpen Scope N_scope.\n",
		Type:   "case",
		Footer: "Definition M := Eval vm_compute in mismatches cases.\nPrint M.\n",
	}
	switch os.Args[1] {
	case "replay":
		raw, err := os.ReadFile(*in)
		if err != nil {
			vx.Die("%v", err)
		}
		var h []op
		if err := json.Unmarshal(raw, &h); err != nil {
			vx.Die("%v", err)
		}
		o, lg, nfl, hung := runHistory(h)
		for i, x := range h {
			fmt.Printf("%3d %-60s -> %s\n", i, x.hcoq(), o[i].full())
		}
		ok, why := judge(h, o, lg, nfl, hung)
		fmt.Printf("one-map reference agrees: %v %s\n", ok, why)
		emit(cf, st, h, "replay")
	case "exh":
		exhaustive(cf, st, *maxLen)
	default:
		for _, h := range wrapperCorners() {
			emit(cf, st, h, "directed-wrapper-corners")
		}
		for _, h := range directed() {
			emit(cf, st, h, "directed")
		}
		for cf.Len() < *n && !hungOnce {
			emit(cf, st, genHistory(r.Fork(), 4+r.Intn(*maxLen-3)), "random")
		}
	}
	if err := cf.Write(*out); err != nil {
		vx.Die("%v", err)
	}
	if err := st.Write(*stats); err != nil {
		vx.Die("%v", err)
	}
}
