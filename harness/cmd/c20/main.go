// Harness for C20 (daemon shutdown order): drives the real app/daemon.OrderedDaemon
//   - on deterministic scripts (pool of API calls; activate a call / hold a call at a verif yield point /
//     release a worker body; after each op the harness waits for the events a Go-side reference simulator
//     expects, under a watchdog) and records per op which bodies were entered, saw their cancel, returned and
//     which calls returned with which result (compared with the Coq model run on the same script), and
//   - free-running (random worker sets, concurrent BackgroundWorker / Shutdown / ShutdownAndWait callers),
//     recording one stamped event history judged by the history predicate (Go oracle and Coq hist_ok).
package main

import (
	"context"
	"flag"
	"fmt"
	"os"
	"sort"
	"strings"
	"sync"
	"sync/atomic"
	"time"

	"github.com/iotaledger/hive.go/app/daemon"
	"github.com/iotaledger/hive.go/ierrors"

	"verif/harness/vx"
)

// ---------- events ----------

const (
	evBegin = iota
	evBW
	evStart
	evCancel
	evReturn
	evShutRet
	evRunRet
)

type event struct {
	Kind int   `json:"k"`
	A    int   `json:"a"`           // call / worker id
	B    int   `json:"b,omitempty"` // name or result code
	O    int64 `json:"o,omitempty"` // order
}

func (e event) coq() string {
	switch e.Kind {
	case evBegin:
		return fmt.Sprintf("EvBegin %d %d", e.A, e.B)
	case evBW:
		return fmt.Sprintf("EvBW %d %s", e.A, resName(e.B))
	case evStart:
		return fmt.Sprintf("EvStart %d %d %d (%s)", e.A, e.A, e.B, vx.Z(e.O)) // worker id = id of the registering call
	case evCancel:
		return fmt.Sprintf("EvCancel %d", e.A)
	case evReturn:
		return fmt.Sprintf("EvReturn %d", e.A)
	case evShutRet:
		return fmt.Sprintf("EvShutRet %d", e.A)
	default:
		return fmt.Sprintf("EvRunRet %d", e.A)
	}
}

func resName(c int) string {
	if c < 0 || c > 3 {
		return "RDup" // panic / unknown error: reported by the Go-side oracle, never expected by the model
	}
	return [...]string{"ROk", "RStopped", "RDup", "RStillRunning"}[c]
}

// recorder: the append order under the mutex is the stamp order.
type recorder struct {
	mu  sync.Mutex
	evs []event
}

func (r *recorder) add(e event) {
	r.mu.Lock()
	r.evs = append(r.evs, e)
	r.mu.Unlock()
}
func (r *recorder) snapshot(from int) []event {
	r.mu.Lock()
	defer r.mu.Unlock()
	return append([]event(nil), r.evs[from:]...)
}

// ---------- calls ----------

const (
	cBW = iota
	cStart
	cRun
	cShut
)
const (
	kOnCancel = 0
	kFree     = 1
)

type call struct {
	Kind  int   `json:"kind"`
	Name  int   `json:"name,omitempty"`
	Order int64 `json:"order,omitempty"`
	WKind int   `json:"wkind,omitempty"`
	Sync  bool  `json:"sync,omitempty"`
}

func (c call) coq() string {
	switch c.Kind {
	case cBW:
		k := "KOnCancel"
		if c.WKind == kFree {
			k = "KFree"
		}
		return fmt.Sprintf("CBW %d (%s) %s", c.Name, vx.Z(c.Order), k)
	case cStart:
		return "CStart"
	case cRun:
		return "CRun"
	default:
		return "CShut " + vx.Bool(c.Sync)
	}
}

const (
	opGo = iota
	opSteps
	opRelease
)

type op struct {
	Kind int `json:"op"`
	T    int `json:"t"`
	K    int `json:"k,omitempty"`
}

func (o op) coq() string {
	switch o.Kind {
	case opGo:
		return fmt.Sprintf("OGo %d", o.T)
	case opSteps:
		return fmt.Sprintf("OSteps %d %d", o.T, o.K)
	default:
		return fmt.Sprintf("ORelease %d", o.T)
	}
}

type obs struct {
	Starts  []int    `json:"starts"`
	Cancels []int    `json:"cancels"`
	Returns []int    `json:"returns"`
	Rets    [][2]int `json:"rets"`
}

func (o *obs) norm() {
	sort.Ints(o.Starts)
	sort.Ints(o.Cancels)
	sort.Ints(o.Returns)
	sort.Slice(o.Rets, func(i, j int) bool { return o.Rets[i][0] < o.Rets[j][0] })
}
func (o obs) key() string { return fmt.Sprint(o.Starts, o.Cancels, o.Returns, o.Rets) }
func (o obs) coq() string {
	nats := func(xs []int) string { return vx.ListOf(xs, func(x int) string { return vx.Nat(x) }) }
	return fmt.Sprintf("mkObs %s %s %s %s", nats(o.Starts), nats(o.Cancels), nats(o.Returns),
		vx.ListOf(o.Rets, func(p [2]int) string { return vx.Pair(vx.Nat(p[0]), vx.Nat(p[1])) }))
}

// ---------- Go-side reference simulator (specification level; independent of the Coq model) ----------

type simW struct {
	idx, name       int
	order           int64
	kind            int
	live, cancelled bool
}
type sim struct {
	pool              []call
	regs              map[int]*simW // registered and not cleaned up, by name
	all               []*simW
	running, stopped  bool
	once, shutActive  bool
	shutDone          bool
	waiters, runWait  []int
	pausedBW          map[int]bool
	pausedStart       map[int]int // call -> steps (1: after check, 3: locked)
	lockHeld          int
	deferred          []func(e *obs)
	done              map[int]bool
}

func newSim(pool []call) *sim {
	return &sim{pool: pool, regs: map[int]*simW{}, pausedBW: map[int]bool{}, pausedStart: map[int]int{}, lockHeld: -1, done: map[int]bool{}}
}
func (s *sim) anyLive() bool {
	for _, w := range s.all {
		if w.live {
			return true
		}
	}
	return false
}
func (s *sim) startW(w *simW, e *obs) { w.live = true; e.Starts = append(e.Starts, w.idx) }
func (s *sim) bw(t int, e *obs) {
	c := s.pool[t]
	s.done[t] = true
	if s.stopped {
		e.Rets = append(e.Rets, [2]int{t, 1})
		return
	}
	if _, ok := s.regs[c.Name]; ok {
		if !s.running {
			e.Rets = append(e.Rets, [2]int{t, 2})
		} else {
			e.Rets = append(e.Rets, [2]int{t, 3})
		}
		return
	}
	w := &simW{idx: t, name: c.Name, order: c.Order, kind: c.WKind}
	s.regs[c.Name] = w
	s.all = append(s.all, w)
	if s.running {
		s.startW(w, e)
	}
	e.Rets = append(e.Rets, [2]int{t, 0})
}
func (s *sim) startBody(e *obs) {
	if !s.running {
		s.running = true
		for _, w := range s.all {
			if s.regs[w.name] == w && !w.live {
				s.startW(w, e)
			}
		}
	}
}
func (s *sim) afterStart(t int, e *obs) {
	if s.pool[t].Kind == cRun {
		s.runWait = append(s.runWait, t)
	} else {
		s.done[t] = true
	}
}
func (s *sim) progress(e *obs) {
	for s.shutActive {
		var p int64
		found := false
		for _, w := range s.all {
			if w.live && !w.cancelled && (!found || w.order > p) {
				p, found = w.order, true
			}
		}
		if !found {
			if !s.anyLive() {
				s.shutActive, s.shutDone, s.running = false, true, false
				for _, t := range s.waiters {
					s.retShut(t, e)
				}
				s.waiters = nil
			}
			return
		}
		for _, w := range s.all {
			if w.live && w.order > p {
				return // blocked behind a cancelled worker of a higher order that has not returned
			}
		}
		for _, w := range s.all {
			if w.live && !w.cancelled && w.order == p {
				w.cancelled = true
				e.Cancels = append(e.Cancels, w.idx)
				if w.kind == kOnCancel {
					w.live = false
					e.Returns = append(e.Returns, w.idx)
				}
			}
		}
	}
}
func (s *sim) retShut(t int, e *obs) {
	s.done[t] = true
	if s.pool[t].Sync {
		e.Rets = append(e.Rets, [2]int{t, 4})
	}
}
func (s *sim) checkRun(e *obs) {
	if len(s.runWait) > 0 && !s.anyLive() && s.lockHeld < 0 {
		for _, t := range s.runWait {
			s.done[t] = true
			e.Rets = append(e.Rets, [2]int{t, 5})
		}
		s.runWait = nil
	}
}
func (s *sim) shut(t int, e *obs) {
	if s.once {
		if s.shutDone {
			s.retShut(t, e)
		} else {
			s.waiters = append(s.waiters, t)
		}
		return
	}
	s.once, s.stopped = true, true
	cont := func(e *obs) {
		if !s.running {
			s.shutDone = true
			s.retShut(t, e)
			for _, u := range s.waiters {
				s.retShut(u, e)
			}
			s.waiters = nil
			return
		}
		s.shutActive = true
		s.waiters = append([]int{t}, s.waiters...)
		s.progress(e)
	}
	if s.lockHeld >= 0 {
		s.deferred = append(s.deferred, cont)
	} else {
		cont(e)
	}
}

// apply returns the events expected during this op.
func (s *sim) apply(o op) obs {
	var e obs
	c := s.pool[o.T]
	switch o.Kind {
	case opRelease:
		for _, w := range s.all {
			if w.idx == o.T && w.live {
				w.live = false
				e.Returns = append(e.Returns, w.idx)
				if !s.stopped {
					delete(s.regs, w.name)
				}
			}
		}
		s.progress(&e)
	case opSteps:
		switch c.Kind {
		case cBW:
			if s.stopped {
				s.done[o.T] = true
				e.Rets = append(e.Rets, [2]int{o.T, 1})
			} else {
				s.pausedBW[o.T] = true
			}
		case cStart:
			if s.stopped {
				s.done[o.T] = true
			} else {
				s.pausedStart[o.T] = o.K
				if o.K == 3 {
					s.lockHeld = o.T
				}
			}
		}
	case opGo:
		switch {
		case c.Kind == cBW:
			delete(s.pausedBW, o.T)
			s.bw(o.T, &e)
		case c.Kind == cStart && s.pausedStart[o.T] == 3:
			delete(s.pausedStart, o.T)
			s.startBody(&e)
			s.afterStart(o.T, &e)
			s.lockHeld = -1
			for _, f := range s.deferred {
				f(&e)
			}
			s.deferred = nil
		case c.Kind == cStart || c.Kind == cRun:
			delete(s.pausedStart, o.T)
			if !s.stopped {
				s.startBody(&e)
			}
			s.afterStart(o.T, &e)
		case c.Kind == cShut:
			s.shut(o.T, &e)
		}
	}
	s.checkRun(&e)
	e.norm()
	return e
}

// ---------- the real daemon under a script ----------

type hookToken struct{ paused, resume chan struct{} }

var (
	hookMu sync.Mutex
	armed  = map[string]*hookToken{}
)

func hookFn(point string) {
	hookMu.Lock()
	tk := armed[point]
	if tk != nil {
		delete(armed, point)
	}
	hookMu.Unlock()
	if tk != nil {
		close(tk.paused)
		<-tk.resume
	}
}

type world struct {
	d       *daemon.OrderedDaemon
	rec     *recorder
	pool    []call
	release []chan struct{}
	done    []atomic.Bool
	tokens  map[int]*hookToken
	settle  time.Duration
}

func wname(n int) string { return fmt.Sprintf("w%d", n) }

func errCode(err error) int {
	switch {
	case err == nil:
		return 0
	case ierrors.Is(err, daemon.ErrDaemonAlreadyStopped):
		return 1
	case ierrors.Is(err, daemon.ErrDuplicateBackgroundWorker):
		return 2
	case ierrors.Is(err, daemon.ErrExistingBackgroundWorkerStillRunning):
		return 3
	}
	return 8
}

func newWorld(pool []call) *world {
	w := &world{d: daemon.New(), rec: &recorder{}, pool: pool, tokens: map[int]*hookToken{}}
	w.release = make([]chan struct{}, len(pool))
	w.done = make([]atomic.Bool, len(pool))
	for i := range pool {
		w.release[i] = make(chan struct{})
	}
	return w
}

// body of the worker registered by call t (scripted mode)
func (w *world) body(t int) daemon.WorkerFunc {
	c := w.pool[t]
	return func(ctx context.Context) {
		w.rec.add(event{Kind: evStart, A: t, B: c.Name, O: c.Order})
		if c.WKind == kOnCancel {
			<-ctx.Done()
			w.rec.add(event{Kind: evCancel, A: t})
		} else {
			select {
			case <-ctx.Done():
				w.rec.add(event{Kind: evCancel, A: t})
				<-w.release[t]
			case <-w.release[t]:
			}
		}
		w.rec.add(event{Kind: evReturn, A: t})
	}
}

func (w *world) issue(t int, body daemon.WorkerFunc) {
	c := w.pool[t]
	go func() {
		defer w.done[t].Store(true)
		switch c.Kind {
		case cBW:
			w.rec.add(event{Kind: evBegin, A: t, B: c.Name})
			code := 9
			func() {
				defer func() { _ = recover() }()
				code = errCode(w.d.BackgroundWorker(wname(c.Name), body, int(c.Order)))
			}()
			w.rec.add(event{Kind: evBW, A: t, B: code})
		case cStart:
			w.d.Start()
		case cRun:
			w.d.Run()
			w.rec.add(event{Kind: evRunRet, A: t})
		case cShut:
			if c.Sync {
				w.d.ShutdownAndWait()
				w.rec.add(event{Kind: evShutRet, A: t})
			} else {
				w.d.Shutdown()
			}
		}
	}()
}

func project(evs []event) obs {
	var o obs
	for _, e := range evs {
		switch e.Kind {
		case evStart:
			o.Starts = append(o.Starts, e.A)
		case evCancel:
			o.Cancels = append(o.Cancels, e.A)
		case evReturn:
			o.Returns = append(o.Returns, e.A)
		case evBW:
			o.Rets = append(o.Rets, [2]int{e.A, e.B})
		case evShutRet:
			o.Rets = append(o.Rets, [2]int{e.A, 4})
		case evRunRet:
			o.Rets = append(o.Rets, [2]int{e.A, 5})
		}
	}
	o.norm()
	return o
}

func covers(have, want obs) bool {
	in := func(xs []int, x int) bool {
		for _, y := range xs {
			if y == x {
				return true
			}
		}
		return false
	}
	for _, x := range want.Starts {
		if !in(have.Starts, x) {
			return false
		}
	}
	for _, x := range want.Cancels {
		if !in(have.Cancels, x) {
			return false
		}
	}
	for _, x := range want.Returns {
		if !in(have.Returns, x) {
			return false
		}
	}
	for _, p := range want.Rets {
		ok := false
		for _, q := range have.Rets {
			if q[0] == p[0] {
				ok = true
			}
		}
		if !ok {
			return false
		}
	}
	return true
}

const watchdog = 4 * time.Second

func waitUntil(f func() bool) bool {
	dl := time.Now().Add(watchdog)
	for i := 0; ; i++ {
		if f() {
			return true
		}
		if time.Now().After(dl) {
			return false
		}
		if i < 50 {
			time.Sleep(20 * time.Microsecond)
		} else {
			time.Sleep(200 * time.Microsecond)
		}
	}
}

// runScript executes ops on a fresh daemon; returns the per-op observations, the per-op expectations and
// whether every wait completed before the watchdog.
func runScript(pool []call, ops []op, settle time.Duration) (seen, want []obs, timedOut bool) {
	w := newWorld(pool)
	s := newSim(pool)
	pos := 0
	lockHeld := false
	for _, o := range ops {
		exp := s.apply(o)
		want = append(want, exp)
		switch o.Kind {
		case opGo:
			if tk := w.tokens[o.T]; tk != nil {
				delete(w.tokens, o.T)
				close(tk.resume)
				if pool[o.T].Kind == cStart {
					lockHeld = false
				}
			} else {
				w.issue(o.T, w.body(o.T))
			}
		case opSteps:
			point := "BackgroundWorker.afterStoppedCheck"
			if pool[o.T].Kind == cStart {
				point = "Start.afterStoppedCheck"
				if o.K == 3 {
					point = "Start.locked"
				}
			}
			tk := &hookToken{paused: make(chan struct{}), resume: make(chan struct{})}
			hookMu.Lock()
			armed[point] = tk
			hookMu.Unlock()
			w.issue(o.T, w.body(o.T))
			ok := waitUntil(func() bool {
				select {
				case <-tk.paused:
					return true
				default:
					return w.done[o.T].Load()
				}
			})
			hookMu.Lock()
			delete(armed, point)
			hookMu.Unlock()
			select {
			case <-tk.paused:
				w.tokens[o.T] = tk
				if o.K == 3 {
					lockHeld = true
				}
			default:
			}
			if !ok {
				timedOut = true
			}
		case opRelease:
			close(w.release[o.T])
		}
		// wait for what the reference simulator expects (watchdog), then settle
		ok := waitUntil(func() bool {
			if !covers(project(w.rec.snapshot(pos)), exp) {
				return false
			}
			for t := range s.done {
				if !w.done[t].Load() {
					return false
				}
			}
			return true
		})
		if ok && s.stopped {
			ok = waitUntil(w.d.IsStopped)
		}
		if lockHeld {
			time.Sleep(time.Millisecond) // give a shutdown that does not synchronise with Start the time to misbehave
		}
		if ok && !lockHeld && len(exp.Returns) > 0 {
			// the worker goroutine clears its running flag after the cleanup: wait for it
			ok = waitUntil(func() bool {
				run := w.d.GetRunningBackgroundWorkers()
				for _, x := range exp.Returns {
					for _, n := range run {
						if n == wname(pool[x].Name) && !nameLiveAgain(s, pool[x].Name, x) {
							return false
						}
					}
				}
				return true
			})
		}
		if !ok {
			timedOut = true
		}
		time.Sleep(settle)
		evs := w.rec.snapshot(pos)
		pos += len(evs)
		seen = append(seen, project(evs))
		if timedOut {
			break
		}
	}
	// tear down whatever is left so that no goroutine leaks into the next case
	for _, tk := range w.tokens {
		close(tk.resume)
	}
	for i := range w.release {
		select {
		case <-w.release[i]:
		default:
			close(w.release[i])
		}
	}
	fin := make(chan struct{})
	go func() { w.d.ShutdownAndWait(); close(fin) }()
	select {
	case <-fin:
	case <-time.After(watchdog):
		timedOut = true
	}
	return seen, want, timedOut
}

func nameLiveAgain(s *sim, name, idx int) bool {
	w, ok := s.regs[name]
	return ok && w.idx != idx && w.live
}

// ---------- script generation ----------

var orderSet = []int64{-7, -1, 0, 0, 1, 1, 2, 5, 5, 40}

func genScript(r *vx.Rng) ([]call, []op) {
	var pool []call
	var ops []op
	s := newSim(nil)
	add := func(c call) int { pool = append(pool, c); s.pool = pool; return len(pool) - 1 }
	do := func(o op) { ops = append(ops, o); s.apply(o) }
	nOps := 6 + r.Intn(12)
	shuts, starts, runIssued := 0, 0, false
	nNames := 2 + r.Intn(3)
	startEarly := r.Chance(1, 3)
	for len(ops) < nOps {
		x := r.Intn(100)
		liveFree := []int{}
		for _, w := range s.all {
			if w.live && w.kind == kFree {
				liveFree = append(liveFree, w.idx)
			}
		}
		paused := []int{}
		for t := range s.pausedBW {
			paused = append(paused, t)
		}
		for t := range s.pausedStart {
			paused = append(paused, t)
		}
		sort.Ints(paused)
		switch {
		case x < 45: // BackgroundWorker
			if runIssued && !s.stopped {
				continue // D20b region (known finding): no worker is started after Run began
			}
			if s.stopped && !r.Chance(1, 3) {
				continue
			}
			c := call{Kind: cBW, Name: r.Intn(nNames), Order: vx.Pick(r, orderSet), WKind: r.Intn(2)}
			t := add(c)
			if !s.stopped && r.Chance(1, 6) && !runIssued {
				do(op{Kind: opSteps, T: t, K: 1})
			} else {
				do(op{Kind: opGo, T: t})
			}
		case x < 60: // Start
			if starts >= 2 || (!startEarly && len(s.all) < 2 && !r.Chance(1, 2)) {
				continue
			}
			starts++
			t := add(call{Kind: cStart})
			switch {
			case !s.stopped && !s.running && r.Chance(1, 4) && !runIssued:
				do(op{Kind: opSteps, T: t, K: 1})
			case !s.stopped && !s.running && r.Chance(1, 3) && !runIssued:
				// hold Start inside its critical section; only shutdown callers arrive meanwhile
				do(op{Kind: opSteps, T: t, K: 3})
				for k := r.Intn(3); k > 0 && shuts < 3; k-- {
					shuts++
					do(op{Kind: opGo, T: add(call{Kind: cShut, Sync: r.Bool()})})
				}
				do(op{Kind: opGo, T: t})
			default:
				do(op{Kind: opGo, T: t})
			}
		case x < 65: // Run
			if runIssued || len(paused) > 0 || len(s.all) == 0 {
				continue
			}
			runIssued = true
			do(op{Kind: opGo, T: add(call{Kind: cRun})})
		case x < 80: // release a free body
			if len(liveFree) == 0 {
				continue
			}
			do(op{Kind: opRelease, T: vx.Pick(r, liveFree)})
		case x < 90: // shutdown caller
			if shuts >= 3 || ((len(ops) < 5 || !s.running) && !s.stopped && !r.Chance(1, 8)) {
				continue
			}
			shuts++
			do(op{Kind: opGo, T: add(call{Kind: cShut, Sync: r.Bool()})})
		default: // resume a held call
			if len(paused) == 0 {
				continue
			}
			do(op{Kind: opGo, T: vx.Pick(r, paused)})
		}
	}
	// wind down: resume held calls, one synchronous shutdown, release every live free body
	for t := range pool {
		if s.pausedBW[t] || s.pausedStart[t] > 0 {
			do(op{Kind: opGo, T: t})
		}
	}
	do(op{Kind: opGo, T: add(call{Kind: cShut, Sync: true})})
	for {
		rel := -1
		for _, w := range s.all {
			if w.live && w.kind == kFree && (rel < 0 || r.Bool()) {
				rel = w.idx
			}
		}
		if rel < 0 {
			break
		}
		do(op{Kind: opRelease, T: rel})
	}
	return pool, ops
}

// directed regression scripts: D20a (two windows), D20c (two windows), ties, early return, re-registration
func directed() [][2]any {
	bw := func(n int, o int64, k int) call { return call{Kind: cBW, Name: n, Order: o, WKind: k} }
	return [][2]any{
		// D20a: b passes the IsStopped check, shutdown snapshots {a} and waits for a, b resumes
		{[]call{{Kind: cStart}, bw(0, 1, kFree), bw(1, 0, kOnCancel), {Kind: cShut, Sync: true}},
			[]op{{opGo, 0, 0}, {opGo, 1, 0}, {opSteps, 2, 1}, {opGo, 3, 0}, {opGo, 2, 0}, {opRelease, 1, 0}}},
		// D20a: b resumes after the shutdown completed (pinned: assignment to entry in nil map)
		{[]call{{Kind: cStart}, bw(0, 1, kOnCancel), bw(1, 0, kOnCancel), {Kind: cShut, Sync: true}},
			[]op{{opGo, 0, 0}, {opGo, 1, 0}, {opSteps, 2, 1}, {opGo, 3, 0}, {opGo, 2, 0}}},
		// D20c: Start passes the IsStopped check, ShutdownAndWait returns (not running), Start resumes
		{[]call{bw(0, 0, kOnCancel), {Kind: cStart}, {Kind: cShut, Sync: true}},
			[]op{{opGo, 0, 0}, {opSteps, 1, 1}, {opGo, 2, 0}, {opGo, 1, 0}}},
		// D20c: Start is inside its critical section when ShutdownAndWait arrives
		{[]call{bw(0, 3, kOnCancel), bw(1, 1, kFree), {Kind: cStart}, {Kind: cShut, Sync: true}, {Kind: cShut, Sync: false}},
			[]op{{opGo, 0, 0}, {opGo, 1, 0}, {opSteps, 2, 3}, {opGo, 3, 0}, {opGo, 4, 0}, {opGo, 2, 0}, {opRelease, 1, 0}}},
		// a registration that begins while Start holds the lock and the stopped flag is already set returns at once
		{[]call{bw(0, 0, kOnCancel), {Kind: cStart}, {Kind: cShut, Sync: true}, bw(1, 0, kOnCancel)},
			[]op{{opGo, 0, 0}, {opSteps, 1, 3}, {opGo, 2, 0}, {opGo, 3, 0}, {opGo, 1, 0}}},
		// ties are cancelled together, a lower order waits for the whole group
		{[]call{{Kind: cStart}, bw(0, 2, kFree), bw(1, 2, kFree), bw(2, 2, kOnCancel), bw(3, -1, kOnCancel), {Kind: cShut, Sync: true}},
			[]op{{opGo, 0, 0}, {opGo, 1, 0}, {opGo, 2, 0}, {opGo, 3, 0}, {opGo, 4, 0}, {opGo, 5, 0}, {opRelease, 1, 0}, {opRelease, 2, 0}}},
		// a worker finished before shutdown, its name is registered again under another order
		{[]call{{Kind: cStart}, bw(0, 5, kFree), bw(0, 1, kOnCancel), bw(1, 3, kFree), bw(0, -1, kFree), {Kind: cShut, Sync: true}},
			[]op{{opGo, 0, 0}, {opGo, 1, 0}, {opGo, 2, 0}, {opRelease, 1, 0}, {opGo, 3, 0}, {opGo, 4, 0}, {opGo, 5, 0}, {opRelease, 3, 0}, {opRelease, 4, 0}}},
	}
}

// ---------- free-running mode ----------

func resOK(code int) bool { return code == 0 }

// Go-side oracle: the history predicate (same meaning as Model.hist_ok / run_ok; independent implementation, oldest first)
func histOK(evs []event) (bool, bool, string) {
	type ws struct {
		order    int64
		name     int
		returned bool
	}
	started := map[int]*ws{}
	shutSeen := false
	begunAfter := map[int]bool{}
	nameOf := map[int]int{}
	hist, run, why := true, true, ""
	allRet := func() bool {
		for _, w := range started {
			if !w.returned {
				return false
			}
		}
		return true
	}
	for i, e := range evs {
		switch e.Kind {
		case evBegin:
			begunAfter[e.A] = shutSeen
			nameOf[e.A] = e.B
		case evBW:
			if e.B > 3 {
				hist, why = false, fmt.Sprintf("event %d: BackgroundWorker call %d panicked or returned an unknown error (code %d)", i, e.A, e.B)
			}
			if e.B == 0 {
				if begunAfter[e.A] {
					hist, why = false, fmt.Sprintf("event %d: BackgroundWorker call %d begun after a shutdown returned was accepted", i, e.A)
				}
				for v, w := range started {
					if w.name == nameOf[e.A] && v != e.A && !w.returned {
						hist, why = false, fmt.Sprintf("event %d: name %d registered by call %d while worker %d of that name has not returned", i, w.name, e.A, v)
					}
				}
			}
		case evStart:
			if shutSeen {
				hist, why = false, fmt.Sprintf("event %d: worker %d entered its body after a shutdown returned", i, e.A)
			}
			started[e.A] = &ws{order: e.O, name: e.B}
		case evCancel:
			if w := started[e.A]; w != nil && !w.returned {
				for v, x := range started {
					if x.order > w.order && !x.returned {
						hist, why = false, fmt.Sprintf("event %d: worker %d (order %d) cancelled while worker %d (order %d) has not returned", i, e.A, w.order, v, x.order)
					}
				}
			}
		case evReturn:
			if w := started[e.A]; w != nil {
				w.returned = true
			}
		case evShutRet:
			if !allRet() {
				hist, why = false, fmt.Sprintf("event %d: ShutdownAndWait (call %d) returned while a started worker has not returned", i, e.A)
			}
			shutSeen = true
		case evRunRet:
			if !allRet() {
				run = false
			}
		}
	}
	return hist, run, why
}

func coqLog(evs []event) string {
	items := make([]string, len(evs))
	for i, e := range evs {
		items[len(evs)-1-i] = e.coq() // newest first
	}
	return vx.List(items)
}

type freeDesc struct {
	Pool   []call `json:"pool"`
	Seed   uint64 `json:"seed"`
	Events []event `json:"events,omitempty"`
}

// freeRun: concurrent clients on one daemon; every goroutine under a watchdog.
func freeRun(r *vx.Rng) (freeDesc, []event, bool) {
	nW := 3 + r.Intn(6)
	nNames := 2 + r.Intn(4)
	var pool []call
	for i := 0; i < nW; i++ {
		pool = append(pool, call{Kind: cBW, Name: r.Intn(nNames), Order: vx.Pick(r, orderSet), WKind: r.Intn(2)})
	}
	startAt := r.Intn(3)
	if r.Chance(1, 8) {
		startAt = r.Intn(nW + 1)
	}
	nShut := 1 + r.Intn(3)
	withRun := r.Chance(1, 4)
	d := daemon.New()
	rec := &recorder{}
	var wg sync.WaitGroup
	us := func(n int) time.Duration { return time.Duration(r.Intn(n)) * time.Microsecond }
	mkBody := func(t int, c call, early, late time.Duration) daemon.WorkerFunc {
		return func(ctx context.Context) {
			rec.add(event{Kind: evStart, A: t, B: c.Name, O: c.Order})
			if c.WKind == kOnCancel {
				<-ctx.Done()
				rec.add(event{Kind: evCancel, A: t})
				time.Sleep(late)
			} else {
				tm := time.NewTimer(early)
				select {
				case <-ctx.Done():
					rec.add(event{Kind: evCancel, A: t})
					<-tm.C
				case <-tm.C:
				}
			}
			rec.add(event{Kind: evReturn, A: t})
		}
	}
	bwCall := func(t int, c call, early, late time.Duration) {
		rec.add(event{Kind: evBegin, A: t, B: c.Name})
		code := 9
		func() {
			defer func() { _ = recover() }()
			code = errCode(d.BackgroundWorker(wname(c.Name), mkBody(t, c, early, late), int(c.Order)))
		}()
		rec.add(event{Kind: evBW, A: t, B: code})
	}
	// per-call random parameters are drawn up front (the Rng is not goroutine-safe)
	early := make([]time.Duration, nW)
	late := make([]time.Duration, nW)
	gap := make([]time.Duration, nW)
	for i := range early {
		early[i], late[i], gap[i] = us(1500), us(400), us(150)
	}
	split := 1 + r.Intn(nW)
	if withRun {
		split = nW // every registration precedes Run (a worker started after Run began is the known finding D20b)
	}
	lateDelay := us(800)
	shutDelay := make([]time.Duration, nShut)
	shutSync := make([]bool, nShut)
	for j := range shutDelay {
		shutDelay[j], shutSync[j] = us(1200), r.Bool()
	}
	id := nW
	var startedFlag atomic.Bool
	waitStart := !r.Chance(1, 8) // mostly the shutdown callers arrive after Start/Run was called
	runID := id
	wg.Add(1)
	go func() { // client 0: registrations, Start/Run in the middle
		defer wg.Done()
		for i := 0; i < split; i++ {
			if i == startAt && !withRun {
				d.Start()
				startedFlag.Store(true)
			}
			bwCall(i, pool[i], early[i], late[i])
			time.Sleep(gap[i])
		}
		if split <= startAt && !withRun {
			d.Start()
			startedFlag.Store(true)
		}
	}()
	wg.Add(1)
	go func() { // client 1: late registrations racing the shutdown
		defer wg.Done()
		time.Sleep(lateDelay)
		for i := split; i < nW; i++ {
			bwCall(i, pool[i], early[i], late[i])
			time.Sleep(gap[i])
		}
	}()
	if withRun {
		pool = append(pool, call{Kind: cRun})
		id++
	}
	for j := 0; j < nShut; j++ {
		t := id
		id++
		pool = append(pool, call{Kind: cShut, Sync: shutSync[j]})
		wg.Add(1)
		go func(j, t int) {
			defer wg.Done()
			if waitStart {
				waitUntil(startedFlag.Load)
			}
			time.Sleep(shutDelay[j])
			if shutSync[j] {
				d.ShutdownAndWait()
				rec.add(event{Kind: evShutRet, A: t})
			} else {
				d.Shutdown()
			}
		}(j, t)
	}
	if withRun {
		wg.Add(1)
		go func() {
			defer wg.Done()
			// all registrations are issued by client 0 before (split == nW): wait for them, then Run
			for {
				n := 0
				for _, e := range rec.snapshot(0) {
					if e.Kind == evBW {
						n++
					}
				}
				if n >= nW {
					break
				}
				time.Sleep(20 * time.Microsecond)
			}
			startedFlag.Store(true)
			d.Run()
			rec.add(event{Kind: evRunRet, A: runID})
		}()
	}
	fin := make(chan struct{})
	go func() {
		wg.Wait()
		final := id
		d.ShutdownAndWait()
		rec.add(event{Kind: evShutRet, A: final})
		close(fin)
	}()
	pool = append(pool, call{Kind: cShut, Sync: true})
	hung := false
	select {
	case <-fin:
	case <-time.After(watchdog):
		hung = true
	}
	evs := rec.snapshot(0)
	// bodies of refused registrations never run: account for them, then wait for the started ones
	started, returned := 0, 0
	for _, e := range evs {
		if e.Kind == evStart {
			started++
		}
		if e.Kind == evReturn {
			returned++
		}
	}
	if !hung && started != returned {
		// a started body that has not returned after the final ShutdownAndWait: give it the watchdog, then report
		ok := waitUntil(func() bool {
			n := 0
			for _, e := range rec.snapshot(0) {
				if e.Kind == evReturn {
					n++
				}
			}
			return n >= started
		})
		_ = ok
		evs = rec.snapshot(0)
	}
	return freeDesc{Pool: pool}, evs, hung
}

// D20b (known finding): Run waits on a snapshot of the wait groups
func d20b() (evs []event, reproduced, hung bool) {
	d := daemon.New()
	rec := &recorder{}
	relA := make(chan struct{})
	rec.add(event{Kind: evBegin, A: 0, B: 0})
	_ = d.BackgroundWorker("a", func(ctx context.Context) {
		rec.add(event{Kind: evStart, A: 0, B: 0, O: 1})
		<-relA
		rec.add(event{Kind: evReturn, A: 0})
	}, 1)
	rec.add(event{Kind: evBW, A: 0, B: 0})
	runDone := make(chan struct{})
	go func() { d.Run(); rec.add(event{Kind: evRunRet, A: 1}); close(runDone) }()
	waitUntil(func() bool { return len(rec.snapshot(0)) >= 3 })
	time.Sleep(20 * time.Millisecond) // let Run take its snapshot of the wait groups
	rec.add(event{Kind: evBegin, A: 2, B: 1})
	bEntered := make(chan struct{})
	_ = d.BackgroundWorker("b", func(ctx context.Context) {
		rec.add(event{Kind: evStart, A: 2, B: 1, O: 0})
		close(bEntered)
		<-ctx.Done()
		rec.add(event{Kind: evCancel, A: 2})
		rec.add(event{Kind: evReturn, A: 2})
	}, 0)
	rec.add(event{Kind: evBW, A: 2, B: 0})
	<-bEntered
	close(relA)
	select {
	case <-runDone:
		reproduced = true
	case <-time.After(300 * time.Millisecond):
	}
	fin := make(chan struct{})
	go func() { d.ShutdownAndWait(); rec.add(event{Kind: evShutRet, A: 3}); <-runDone; close(fin) }()
	select {
	case <-fin:
	case <-time.After(watchdog):
		hung = true
	}
	return rec.snapshot(0), reproduced, hung
}

// reregRun: a name is registered again the moment its previous worker is gone (the worker goroutine cleans up
// concurrently); every accepted worker must still be stopped by the final ShutdownAndWait.
func reregRun(r *vx.Rng) ([]event, bool) {
	d := daemon.New()
	rec := &recorder{}
	d.Start()
	id := 0
	for name := 0; name < 3; name++ {
		chain := 2 + r.Intn(4)
		for k := 0; k < chain; k++ {
			i, order := id, vx.Pick(r, orderSet)
			id++
			rel := make(chan struct{})
			entered := make(chan struct{})
			body := func(ctx context.Context) {
				rec.add(event{Kind: evStart, A: i, B: name, O: order})
				close(entered)
				select {
				case <-ctx.Done():
					rec.add(event{Kind: evCancel, A: i})
				case <-rel:
				}
				rec.add(event{Kind: evReturn, A: i})
			}
			rec.add(event{Kind: evBegin, A: i, B: name})
			code := 3
			for dl := time.Now().Add(watchdog); code == 3 && time.Now().Before(dl); { // tight spin: hit the cleanup window
				code = errCode(d.BackgroundWorker(wname(name), body, int(order)))
			}
			rec.add(event{Kind: evBW, A: i, B: code})
			if code != 0 {
				return rec.snapshot(0), true
			}
			select {
			case <-entered:
			case <-time.After(watchdog):
				return rec.snapshot(0), true
			}
			if k < chain-1 {
				close(rel) // returns early; the last worker of each name stays until it is cancelled
			}
		}
	}
	fin := make(chan struct{})
	go func() { d.ShutdownAndWait(); rec.add(event{Kind: evShutRet, A: id}); close(fin) }()
	select {
	case <-fin:
	case <-time.After(watchdog):
		return rec.snapshot(0), true
	}
	return rec.snapshot(0), false
}

// ---------- main ----------

func main() {
	if len(os.Args) < 2 {
		vx.Die("usage: hx-c20 all [--scripts N] [--free M] --seed S --out cases.v --stats stats.json")
	}
	fs := flag.NewFlagSet(os.Args[1], flag.ExitOnError)
	nScripts := fs.Int("scripts", 250, "random scripts")
	nFree := fs.Int("free", 120, "free-running histories")
	seed := fs.Uint64("seed", 1, "seed")
	out := fs.String("out", "cases.v", "cases file")
	statsP := fs.String("stats", "stats.json", "stats file")
	_ = fs.Parse(os.Args[2:])
	daemon.VerifYield = hookFn

	rng := vx.NewRng(*seed)
	st := vx.NewStats("a script counts as non-trivial when a shutdown cancelled live workers of at least two distinct orders, or a call was held at a yield point, or a body returned before the shutdown; a free-running history when it contains a cancel of a live worker and at least two distinct orders")
	cf := &vx.CasesFile{
		Header: "From Coq Require Import ZArith List Bool.\nFrom Verif.C20_Daemon Require Import Model Corr.\nImport ListNotations.\n",
		Type:   "case",
		Footer: "Definition M := Eval vm_compute in mismatches cases.\nPrint M.",
	}
	failures := 0
	doScript := func(tag string, pool []call, ops []op) {
		seen, want, timedOut := runScript(pool, ops, 150*time.Microsecond)
		desc := map[string]any{"mode": "script", "tag": tag, "pool": pool, "ops": ops, "seen": seen}
		st.CaseIndex = append(st.CaseIndex, desc)
		cf.Add(fmt.Sprintf("CScript %s %s %s",
			vx.ListOf(pool, func(c call) string { return c.coq() }),
			vx.ListOf(ops, func(o op) string { return o.coq() }),
			vx.ListOf(seen, func(o obs) string { return o.coq() })))
		bad := timedOut || len(seen) != len(want)
		for i := range seen {
			if i < len(want) && seen[i].key() != want[i].key() {
				bad = true
			}
		}
		if bad {
			failures++
			desc["expected"] = want
			desc["timed_out"] = timedOut
			st.Fail(desc)
		}
		orders := map[int64]bool{}
		hooked, early := false, false
		cancels := 0
		for i, o := range ops {
			if o.Kind == opSteps {
				hooked = true
			}
			if i < len(seen) {
				for _, x := range seen[i].Cancels {
					orders[pool[x].Order] = true
					cancels++
				}
				if cancels == 0 && len(seen[i].Returns) > 0 {
					early = true
				}
			}
		}
		var sb strings.Builder
		for _, c := range pool {
			sb.WriteString(c.coq())
		}
		for _, o := range ops {
			sb.WriteString(o.coq())
		}
		st.Case(sb.String(), len(orders) >= 2 || hooked || early)
		st.Count(fmt.Sprintf("script:%s ops=%d-%d", tag, len(ops)/5*5, len(ops)/5*5+4))
		if hooked {
			st.Count("script:held-at-yield-point")
		}
		if early {
			st.Count("script:body-returned-before-shutdown")
		}
		if len(orders) >= 2 {
			st.Count("script:>=2-order-groups-cancelled")
		}
		st.Sample(desc, 3)
	}
	for _, dcase := range directed() {
		doScript("directed", dcase[0].([]call), dcase[1].([]op))
	}
	// D20b directed (known finding)
	{
		evs, reproduced, hung := d20b()
		h, rn, why := histOK(evs)
		if hung {
			h, why = false, "ShutdownAndWait did not return"
		}
		st.CaseIndex = append(st.CaseIndex, map[string]any{"mode": "d20b", "events": evs})
		cf.Add(fmt.Sprintf("CLog %s %s %s", coqLog(evs), vx.Bool(h), vx.Bool(rn)))
		st.Case("d20b", true)
		if reproduced && !rn {
			st.Known = append(st.Known, "run-returns-before-late-worker")
		}
		if !h {
			st.Fail(map[string]any{"mode": "d20b", "why": why, "events": evs})
		}
	}
	for i := 0; i < *nScripts && failures < 4; i++ {
		pool, ops := genScript(rng.Fork())
		doScript("random", pool, ops)
	}
	for i := 0; i < *nFree/4 && failures < 4; i++ {
		evs, hung := reregRun(rng.Fork())
		h, rn, why := histOK(evs)
		idx := map[string]any{"mode": "rereg", "events": evs}
		st.CaseIndex = append(st.CaseIndex, idx)
		cf.Add(fmt.Sprintf("CLog %s %s %s", coqLog(evs), vx.Bool(h), vx.Bool(rn)))
		st.Case(fmt.Sprint(evs), true)
		st.Count("rereg:same-name-registered-again-immediately")
		if hung || !h {
			failures++
			idx["why"] = why
			idx["hung"] = hung
			st.Fail(idx)
		}
	}
	for i := 0; i < *nFree && failures < 4; i++ {
		desc, evs, hung := freeRun(rng.Fork())
		h, rn, why := histOK(evs)
		idx := map[string]any{"mode": "free", "pool": desc.Pool, "events": evs}
		st.CaseIndex = append(st.CaseIndex, idx)
		cf.Add(fmt.Sprintf("CLog %s %s %s", coqLog(evs), vx.Bool(h), vx.Bool(rn)))
		orders := map[int64]bool{}
		cancels := 0
		for _, e := range evs {
			if e.Kind == evStart {
				orders[e.O] = true
			}
			if e.Kind == evCancel {
				cancels++
			}
		}
		st.Case(fmt.Sprint(evs), cancels > 0 && len(orders) >= 2)
		st.Count(fmt.Sprintf("free:distinct-orders-started=%d", len(orders)))
		if cancels > 0 {
			st.Count("free:with-cancel-of-live-worker")
		}
		if hung || !h || !rn {
			failures++
			idx["why"] = why
			idx["hung"] = hung
			idx["run_ok"] = rn
			st.Fail(idx)
		}
	}
	if err := cf.Write(*out); err != nil {
		vx.Die("%v", err)
	}
	if err := st.Write(*statsP); err != nil {
		vx.Die("%v", err)
	}
}
