// Harness for C20 (daemon shutdown order): drives the real app/daemon.OrderedDaemon
//   - on deterministic scripts (pool of API calls; activate a call / hold a call at a verif yield point /
//     release a worker body; after each op the harness waits for the events a Go-side reference simulator
//     expects, under a watchdog) and records per op which bodies were entered, saw their cancel, returned and
//     which calls returned with which result (compared with the Coq model run on the same script), and
//   - free-running (random worker sets, concurrent BackgroundWorker / Shutdown / ShutdownAndWait callers),
//     recording one stamped event history judged by the history predicate (Go oracle and Coq hist_ok).
package main

import (
	"bytes"
	"context"
	"encoding/json"
	"flag"
	"fmt"
	"math"
	"os"
	"os/exec"
	"sort"
	"strings"
	"sync"
	"sync/atomic"
	"time"

	"github.com/iotaledger/hive.go/app/daemon"
	"github.com/iotaledger/hive.go/ierrors"
	"github.com/iotaledger/hive.go/log"

	"verif/harness/vx"
)

// ---------- events ----------

const (
	evBegin = iota
	evBW
	evStart
	evCancel
	evReturn
	evShutRet
	evRunRet
)

type event struct {
	Kind int   `json:"k"`
	A    int   `json:"a"`           // call / worker id
	B    int   `json:"b,omitempty"` // name or result code
	O    int64 `json:"o,omitempty"` // order
}

func (e event) coq() string {
	switch e.Kind {
	case evBegin:
		return fmt.Sprintf("EvBegin %d %d", e.A, e.B)
	case evBW:
		return fmt.Sprintf("EvBW %d %s", e.A, resName(e.B))
	case evStart:
		return fmt.Sprintf("EvStart %d %d %d (%s)", e.A, e.A, e.B, vx.Z(e.O)) // worker id = id of the registering call
	case evCancel:
		return fmt.Sprintf("EvCancel %d", e.A)
	case evReturn:
		return fmt.Sprintf("EvReturn %d", e.A)
	case evShutRet:
		return fmt.Sprintf("EvShutRet %d", e.A)
	default:
		return fmt.Sprintf("EvRunRet %d", e.A)
	}
}

func resName(c int) string {
	if c < 0 || c > 3 {
		return "RDup" // panic / unknown error: reported by the Go-side oracle, never expected by the model
	}
	return [...]string{"ROk", "RStopped", "RDup", "RStillRunning"}[c]
}

// recorder: the append order under the mutex is the stamp order.
type recorder struct {
	mu  sync.Mutex
	evs []event
}

func (r *recorder) add(e event) {
	r.mu.Lock()
	r.evs = append(r.evs, e)
	r.mu.Unlock()
}
func (r *recorder) snapshot(from int) []event {
	r.mu.Lock()
	defer r.mu.Unlock()
	return append([]event(nil), r.evs[from:]...)
}

// ---------- calls ----------

const (
	cBW = iota
	cStart
	cRun
	cShut
)
const (
	kOnCancel = 0
	kFree     = 1
)

type call struct {
	Kind  int   `json:"kind"`
	Name  int   `json:"name,omitempty"`
	Order int64 `json:"order,omitempty"`
	WKind int   `json:"wkind,omitempty"`
	Sync  bool  `json:"sync,omitempty"`
}

func (c call) coq() string {
	switch c.Kind {
	case cBW:
		k := "KOnCancel"
		if c.WKind == kFree {
			k = "KFree"
		}
		return fmt.Sprintf("CBW %d (%s) %s", c.Name, vx.Z(c.Order), k)
	case cStart:
		return "CStart"
	case cRun:
		return "CRun"
	default:
		return "CShut " + vx.Bool(c.Sync)
	}
}

const (
	opGo = iota
	opSteps
	opRelease
)

type op struct {
	Kind int `json:"op"`
	T    int `json:"t"`
	K    int `json:"k,omitempty"`
}

func (o op) coq() string {
	switch o.Kind {
	case opGo:
		return fmt.Sprintf("OGo %d", o.T)
	case opSteps:
		return fmt.Sprintf("OSteps %d %d", o.T, o.K)
	default:
		return fmt.Sprintf("ORelease %d", o.T)
	}
}

type obs struct {
	Starts  []int    `json:"starts"`
	Cancels []int    `json:"cancels"`
	Returns []int    `json:"returns"`
	Rets    [][2]int `json:"rets"`
}

func (o *obs) norm() {
	sort.Ints(o.Starts)
	sort.Ints(o.Cancels)
	sort.Ints(o.Returns)
	sort.Slice(o.Rets, func(i, j int) bool { return o.Rets[i][0] < o.Rets[j][0] })
}
func (o obs) key() string { return fmt.Sprint(o.Starts, o.Cancels, o.Returns, o.Rets) }
func (o obs) coq() string {
	nats := func(xs []int) string { return vx.ListOf(xs, func(x int) string { return vx.Nat(x) }) }
	return fmt.Sprintf("mkObs %s %s %s %s", nats(o.Starts), nats(o.Cancels), nats(o.Returns),
		vx.ListOf(o.Rets, func(p [2]int) string { return vx.Pair(vx.Nat(p[0]), vx.Nat(p[1])) }))
}

// ---------- Go-side reference simulator (specification level; independent of the Coq model) ----------

type simW struct {
	idx, name       int
	order           int64
	kind            int
	live, cancelled bool
}
type sim struct {
	pool             []call
	regs             map[int]*simW // registered and not cleaned up, by name
	all              []*simW
	running, stopped bool
	once, shutActive bool
	shutDone         bool
	waiters, runWait []int
	pausedBW         map[int]bool
	pausedStart      map[int]int // call -> steps (1: after check, 3: locked)
	lockHeld         int
	deferred         []func(e *obs)
	done             map[int]bool
}

func newSim(pool []call) *sim {
	return &sim{pool: pool, regs: map[int]*simW{}, pausedBW: map[int]bool{}, pausedStart: map[int]int{}, lockHeld: -1, done: map[int]bool{}}
}
func (s *sim) anyLive() bool {
	for _, w := range s.all {
		if w.live {
			return true
		}
	}
	return false
}
func (s *sim) startW(w *simW, e *obs) { w.live = true; e.Starts = append(e.Starts, w.idx) }
func (s *sim) bw(t int, e *obs) {
	c := s.pool[t]
	s.done[t] = true
	if s.stopped {
		e.Rets = append(e.Rets, [2]int{t, 1})
		return
	}
	if _, ok := s.regs[c.Name]; ok {
		if !s.running {
			e.Rets = append(e.Rets, [2]int{t, 2})
		} else {
			e.Rets = append(e.Rets, [2]int{t, 3})
		}
		return
	}
	w := &simW{idx: t, name: c.Name, order: c.Order, kind: c.WKind}
	s.regs[c.Name] = w
	s.all = append(s.all, w)
	if s.running {
		s.startW(w, e)
	}
	e.Rets = append(e.Rets, [2]int{t, 0})
}
func (s *sim) startBody(e *obs) {
	if !s.running {
		s.running = true
		for _, w := range s.all {
			if s.regs[w.name] == w && !w.live {
				s.startW(w, e)
			}
		}
	}
}
func (s *sim) afterStart(t int, e *obs) {
	if s.pool[t].Kind == cRun {
		s.runWait = append(s.runWait, t)
	} else {
		s.done[t] = true
	}
}
func (s *sim) progress(e *obs) {
	for s.shutActive {
		var p int64
		found := false
		for _, w := range s.all {
			if w.live && !w.cancelled && (!found || w.order > p) {
				p, found = w.order, true
			}
		}
		if !found {
			if !s.anyLive() {
				s.shutActive, s.shutDone, s.running = false, true, false
				for _, t := range s.waiters {
					s.retShut(t, e)
				}
				s.waiters = nil
			}
			return
		}
		for _, w := range s.all {
			if w.live && w.order > p {
				return // blocked behind a cancelled worker of a higher order that has not returned
			}
		}
		for _, w := range s.all {
			if w.live && !w.cancelled && w.order == p {
				w.cancelled = true
				e.Cancels = append(e.Cancels, w.idx)
				if w.kind == kOnCancel {
					w.live = false
					e.Returns = append(e.Returns, w.idx)
				}
			}
		}
	}
}
func (s *sim) retShut(t int, e *obs) {
	s.done[t] = true
	if s.pool[t].Sync {
		e.Rets = append(e.Rets, [2]int{t, 4})
	}
}
func (s *sim) checkRun(e *obs) {
	if len(s.runWait) > 0 && !s.anyLive() && s.lockHeld < 0 {
		for _, t := range s.runWait {
			s.done[t] = true
			e.Rets = append(e.Rets, [2]int{t, 5})
		}
		s.runWait = nil
	}
}
func (s *sim) shut(t int, e *obs) {
	if s.once {
		if s.shutDone {
			s.retShut(t, e)
		} else {
			s.waiters = append(s.waiters, t)
		}
		return
	}
	s.once, s.stopped = true, true
	cont := func(e *obs) {
		if !s.running {
			s.shutDone = true
			s.retShut(t, e)
			for _, u := range s.waiters {
				s.retShut(u, e)
			}
			s.waiters = nil
			return
		}
		s.shutActive = true
		s.waiters = append([]int{t}, s.waiters...)
		s.progress(e)
	}
	if s.lockHeld >= 0 {
		s.deferred = append(s.deferred, cont)
	} else {
		cont(e)
	}
}

// apply returns the events expected during this op.
func (s *sim) apply(o op) obs {
	var e obs
	c := s.pool[o.T]
	switch o.Kind {
	case opRelease:
		for _, w := range s.all {
			if w.idx == o.T && w.live {
				w.live = false
				e.Returns = append(e.Returns, w.idx)
				if !s.stopped {
					delete(s.regs, w.name)
				}
			}
		}
		s.progress(&e)
	case opSteps:
		switch c.Kind {
		case cBW:
			if s.stopped {
				s.done[o.T] = true
				e.Rets = append(e.Rets, [2]int{o.T, 1})
			} else {
				s.pausedBW[o.T] = true
			}
		case cStart:
			if s.stopped {
				s.done[o.T] = true
			} else {
				s.pausedStart[o.T] = o.K
				if o.K == 3 {
					s.lockHeld = o.T
				}
			}
		}
	case opGo:
		switch {
		case c.Kind == cBW:
			delete(s.pausedBW, o.T)
			s.bw(o.T, &e)
		case c.Kind == cStart && s.pausedStart[o.T] == 3:
			delete(s.pausedStart, o.T)
			s.startBody(&e)
			s.afterStart(o.T, &e)
			s.lockHeld = -1
			for _, f := range s.deferred {
				f(&e)
			}
			s.deferred = nil
		case c.Kind == cStart || c.Kind == cRun:
			delete(s.pausedStart, o.T)
			if !s.stopped {
				s.startBody(&e)
			}
			s.afterStart(o.T, &e)
		case c.Kind == cShut:
			s.shut(o.T, &e)
		}
	}
	s.checkRun(&e)
	e.norm()
	return e
}

// ---------- the real daemon under a script ----------

type hookToken struct{ paused, resume chan struct{} }

var (
	hookMu sync.Mutex
	armed  = map[string]*hookToken{}
)

func hookFn(point string) {
	hookMu.Lock()
	tk := armed[point]
	if tk != nil {
		delete(armed, point)
	}
	hookMu.Unlock()
	if tk != nil {
		close(tk.paused)
		<-tk.resume
	}
}

type world struct {
	d       daemon.Daemon // a New() instance or the package-level functions (default instance, child process only)
	rec     *recorder
	pool    []call
	release []chan struct{}
	done    []atomic.Bool
	tokens  map[int]*hookToken
	settle  time.Duration
}

// Concrete worker names. The scripts, the simulator and the Coq model speak of abstract name ids 0,1,2,...; which string a name
// id stands for is a parameter of the case (the model is indifferent to it: names are only compared for equality). Besides
// the ordinary short names the palettes hold the extreme inputs of a string-keyed registry: the EMPTY name, names that differ
// only in case or in a leading/trailing space, names that are prefixes of one another, very long names (1000 bytes) that
// differ only in the last byte / in length / in case. All names of one palette are pairwise distinct Go strings.
var longName = strings.Repeat("n", 1000)
var namePalettes = [][]string{
	{"w0", "w1", "w2", "w3", "w4", "w5"},
	{"", "w", "W", "w ", " w", " "},
	{"a", "ab", "", "abc", "abc ", "ABC"},
	{longName, "", longName + "x", longName[:999], strings.ToUpper(longName), longName + " "},
}

// palette of the scenario that is running (one scenario at a time per process; children get it in their request)
var namePal int
var paletteTag = []string{"ordinary", "empty/case/space", "prefixes+empty", "1000-byte-names+empty"}

func setNames(k int) { namePal = k % len(namePalettes) }

func wname(n int) string {
	if p := namePalettes[namePal]; n < len(p) {
		return p[n]
	}
	return fmt.Sprintf("w%d", n)
}

// shownNames: the palette in use, for the failing input (long names abbreviated)
func shownNames() []string {
	var out []string
	for _, n := range namePalettes[namePal] {
		if len(n) > 40 {
			out = append(out, fmt.Sprintf("%q+(%d more bytes, last %q)", n[:4], len(n)-4, n[len(n)-1:]))
		} else {
			out = append(out, fmt.Sprintf("%q", n))
		}
	}
	return out
}

func errCode(err error) int {
	switch {
	case err == nil:
		return 0
	case ierrors.Is(err, daemon.ErrDaemonAlreadyStopped):
		return 1
	case ierrors.Is(err, daemon.ErrDuplicateBackgroundWorker):
		return 2
	case ierrors.Is(err, daemon.ErrExistingBackgroundWorkerStillRunning):
		return 3
	}
	return 8
}

func newWorld(pool []call, d daemon.Daemon) *world {
	w := &world{d: d, rec: &recorder{}, pool: pool, tokens: map[int]*hookToken{}}
	w.release = make([]chan struct{}, len(pool))
	w.done = make([]atomic.Bool, len(pool))
	for i := range pool {
		w.release[i] = make(chan struct{})
	}
	return w
}

// body of the worker registered by call t (scripted mode)
func (w *world) body(t int) daemon.WorkerFunc {
	c := w.pool[t]
	return func(ctx context.Context) {
		w.rec.add(event{Kind: evStart, A: t, B: c.Name, O: c.Order})
		if c.WKind == kOnCancel {
			<-ctx.Done()
			w.rec.add(event{Kind: evCancel, A: t})
		} else {
			select {
			case <-ctx.Done():
				w.rec.add(event{Kind: evCancel, A: t})
				<-w.release[t]
			case <-w.release[t]:
			}
		}
		w.rec.add(event{Kind: evReturn, A: t})
	}
}

func (w *world) issue(t int, body daemon.WorkerFunc) {
	c := w.pool[t]
	go func() {
		defer w.done[t].Store(true)
		switch c.Kind {
		case cBW:
			w.rec.add(event{Kind: evBegin, A: t, B: c.Name})
			code := 9
			func() {
				defer func() { _ = recover() }()
				code = errCode(registerShaped(w.d, t+len(w.pool), wname(c.Name), body, int(c.Order)))
			}()
			w.rec.add(event{Kind: evBW, A: t, B: code})
		case cStart:
			w.d.Start()
		case cRun:
			w.d.Run()
			w.rec.add(event{Kind: evRunRet, A: t})
		case cShut:
			if c.Sync {
				w.d.ShutdownAndWait()
				w.rec.add(event{Kind: evShutRet, A: t})
			} else {
				w.d.Shutdown()
			}
		}
	}()
}

func project(evs []event) obs {
	var o obs
	for _, e := range evs {
		switch e.Kind {
		case evStart:
			o.Starts = append(o.Starts, e.A)
		case evCancel:
			o.Cancels = append(o.Cancels, e.A)
		case evReturn:
			o.Returns = append(o.Returns, e.A)
		case evBW:
			o.Rets = append(o.Rets, [2]int{e.A, e.B})
		case evShutRet:
			o.Rets = append(o.Rets, [2]int{e.A, 4})
		case evRunRet:
			o.Rets = append(o.Rets, [2]int{e.A, 5})
		}
	}
	o.norm()
	return o
}

func covers(have, want obs) bool {
	in := func(xs []int, x int) bool {
		for _, y := range xs {
			if y == x {
				return true
			}
		}
		return false
	}
	for _, x := range want.Starts {
		if !in(have.Starts, x) {
			return false
		}
	}
	for _, x := range want.Cancels {
		if !in(have.Cancels, x) {
			return false
		}
	}
	for _, x := range want.Returns {
		if !in(have.Returns, x) {
			return false
		}
	}
	for _, p := range want.Rets {
		ok := false
		for _, q := range have.Rets {
			if q[0] == p[0] {
				ok = true
			}
		}
		if !ok {
			return false
		}
	}
	return true
}

const watchdog = 4 * time.Second

func waitUntil(f func() bool) bool {
	dl := time.Now().Add(watchdog)
	for i := 0; ; i++ {
		if f() {
			return true
		}
		if time.Now().After(dl) {
			return false
		}
		if i < 50 {
			time.Sleep(20 * time.Microsecond)
		} else {
			time.Sleep(200 * time.Microsecond)
		}
	}
}

// runScript executes ops on a fresh daemon; returns the per-op observations, the per-op expectations and
// whether every wait completed before the watchdog.
func runScript(d daemon.Daemon, pool []call, ops []op, settle time.Duration) (seen, want []obs, timedOut bool, why string) {
	w := newWorld(pool, d)
	if msg := quiescentState(d, false, false, nil, nil); msg != "" {
		why = "fresh daemon: " + msg
	}
	s := newSim(pool)
	pos := 0
	lockHeld := false
	for _, o := range ops {
		exp := s.apply(o)
		want = append(want, exp)
		switch o.Kind {
		case opGo:
			if tk := w.tokens[o.T]; tk != nil {
				delete(w.tokens, o.T)
				close(tk.resume)
				if pool[o.T].Kind == cStart {
					lockHeld = false
				}
			} else {
				w.issue(o.T, w.body(o.T))
			}
		case opSteps:
			point := "BackgroundWorker.afterStoppedCheck"
			if pool[o.T].Kind == cStart {
				point = "Start.afterStoppedCheck"
				if o.K == 3 {
					point = "Start.locked"
				}
			}
			tk := &hookToken{paused: make(chan struct{}), resume: make(chan struct{})}
			hookMu.Lock()
			armed[point] = tk
			hookMu.Unlock()
			w.issue(o.T, w.body(o.T))
			ok := waitUntil(func() bool {
				select {
				case <-tk.paused:
					return true
				default:
					return w.done[o.T].Load()
				}
			})
			hookMu.Lock()
			delete(armed, point)
			hookMu.Unlock()
			select {
			case <-tk.paused:
				w.tokens[o.T] = tk
				if o.K == 3 {
					lockHeld = true
				}
			default:
			}
			if !ok {
				timedOut = true
			}
		case opRelease:
			close(w.release[o.T])
		}
		// wait for what the reference simulator expects (watchdog), then settle
		ok := waitUntil(func() bool {
			if !covers(project(w.rec.snapshot(pos)), exp) {
				return false
			}
			for t := range s.done {
				if !w.done[t].Load() {
					return false
				}
			}
			return true
		})
		if ok && s.stopped {
			ok = waitUntil(w.d.IsStopped)
		}
		if lockHeld {
			time.Sleep(time.Millisecond) // give a shutdown that does not synchronise with Start the time to misbehave
		}
		if ok && !lockHeld && len(exp.Returns) > 0 {
			// the worker goroutine clears its running flag after the cleanup: wait for it
			ok = waitUntil(func() bool {
				run := w.d.GetRunningBackgroundWorkers()
				for _, x := range exp.Returns {
					for _, n := range run {
						if n == wname(pool[x].Name) && !nameLiveAgain(s, pool[x].Name, x) {
							return false
						}
					}
				}
				return true
			})
		}
		if !ok {
			timedOut = true
		}
		if ok && !lockHeld && why == "" {
			// read-only API at the quiescent point: IsRunning, IsStopped, ContextStopped, GetRunningBackgroundWorkers
			var live []string
			ord := map[string]int64{}
			for _, x := range s.all {
				if x.live {
					live = append(live, wname(x.name))
					ord[wname(x.name)] = x.order
				}
			}
			msg := ""
			if !waitUntil(func() bool { msg = quiescentState(d, s.running, s.stopped, live, ord); return msg == "" }) {
				why = fmt.Sprintf("after op %d: %s", len(seen), msg)
			}
		}
		time.Sleep(settle)
		evs := w.rec.snapshot(pos)
		pos += len(evs)
		seen = append(seen, project(evs))
		if timedOut {
			break
		}
	}
	// tear down whatever is left so that no goroutine leaks into the next case
	for _, tk := range w.tokens {
		close(tk.resume)
	}
	for i := range w.release {
		select {
		case <-w.release[i]:
		default:
			close(w.release[i])
		}
	}
	fin := make(chan struct{})
	go func() { w.d.ShutdownAndWait(); close(fin) }()
	select {
	case <-fin:
	case <-time.After(watchdog):
		timedOut = true
	}
	if !timedOut && why == "" {
		msg := ""
		if !waitUntil(func() bool { msg = quiescentState(d, false, true, nil, nil); return msg == "" }) {
			why = "after the final ShutdownAndWait: " + msg
		}
	}
	return seen, want, timedOut, why
}

func nameLiveAgain(s *sim, name, idx int) bool {
	w, ok := s.regs[name]
	return ok && w.idx != idx && w.live
}

// ---------- API surface: instance methods, package-level functions, argument shapes, read-only calls ----------

var _ daemon.Daemon = (*daemon.OrderedDaemon)(nil)

// pkgAPI drives the process-global default instance through the exported package-level functions.
type pkgAPI struct{}

func (pkgAPI) GetRunningBackgroundWorkers() []string { return daemon.GetRunningBackgroundWorkers() }
func (pkgAPI) BackgroundWorker(name string, h daemon.WorkerFunc, order ...int) error {
	return daemon.BackgroundWorker(name, h, order...)
}
func (pkgAPI) DebugLogger(l log.Logger)        { daemon.DebugLogger(l) }
func (pkgAPI) Start()                          { daemon.Start() }
func (pkgAPI) Run()                            { daemon.Run() }
func (pkgAPI) Shutdown()                       { daemon.Shutdown() }
func (pkgAPI) ShutdownAndWait()                { daemon.ShutdownAndWait() }
func (pkgAPI) IsRunning() bool                 { return daemon.IsRunning() }
func (pkgAPI) IsStopped() bool                 { return daemon.IsStopped() }
func (pkgAPI) ContextStopped() context.Context { return daemon.ContextStopped() }

// registerShaped passes the order in one of the argument shapes the variadic signature admits (all mean `order`).
func registerShaped(d daemon.Daemon, shape int, name string, h daemon.WorkerFunc, order int) error {
	switch shape % 4 {
	case 0:
		return d.BackgroundWorker(name, h, order)
	case 1:
		if order == 0 {
			return d.BackgroundWorker(name, h) // the default order
		}
		return d.BackgroundWorker(name, h, order, order)
	case 2:
		return d.BackgroundWorker(name, h, []int{order}...)
	default:
		if order == 0 {
			return d.BackgroundWorker(name, h, []int{}...)
		}
		return d.BackgroundWorker(name, h, order)
	}
}

// quiescentState compares the read-only API with the reference simulator's state ("" = agrees):
// IsRunning, IsStopped, ContextStopped, GetRunningBackgroundWorkers (the running names, lowest order first).
func quiescentState(d daemon.Daemon, running, stopped bool, live []string, ord map[string]int64) string {
	if got := d.IsStopped(); got != stopped {
		return fmt.Sprintf("IsStopped() = %v, expected %v", got, stopped)
	}
	ctx := d.ContextStopped()
	if ctx == nil {
		return "ContextStopped() = nil"
	}
	if got := ctx.Err() != nil; got != stopped {
		return fmt.Sprintf("ContextStopped() done = %v, expected %v", got, stopped)
	}
	if got := d.IsRunning(); got != running {
		return fmt.Sprintf("IsRunning() = %v, expected %v", got, running)
	}
	got := d.GetRunningBackgroundWorkers()
	a, b := append([]string{}, got...), append([]string{}, live...)
	sort.Strings(a)
	sort.Strings(b)
	if fmt.Sprintf("%q", a) != fmt.Sprintf("%q", b) {
		return fmt.Sprintf("GetRunningBackgroundWorkers() = %.60q, running bodies %.60q", got, b)
	}
	for i := 1; i < len(got); i++ {
		if ord[got[i-1]] > ord[got[i]] {
			return fmt.Sprintf("GetRunningBackgroundWorkers() = %.60q is not sorted by order (%d before %d)", got, ord[got[i-1]], ord[got[i]])
		}
	}
	return ""
}

// ---------- child processes (the default instance is process-global and single-shot: one scenario per process) ----------

type childReq struct {
	Mode   string `json:"mode"` // script | free | rereg
	API    string `json:"api"`  // pkg | instance
	Logger bool   `json:"logger,omitempty"`
	Pool   []call `json:"pool,omitempty"`
	Ops    []op   `json:"ops,omitempty"`
	Seed   uint64 `json:"seed,omitempty"`
	Names  int    `json:"names,omitempty"` // index into namePalettes
}
type childResp struct {
	Seen     []obs    `json:"seen,omitempty"`
	Want     []obs    `json:"want,omitempty"`
	TimedOut bool     `json:"timed_out,omitempty"`
	Why      string   `json:"why,omitempty"`
	Desc     freeDesc `json:"desc,omitempty"`
	Events   []event  `json:"events,omitempty"`
	Hung     bool     `json:"hung,omitempty"`
	LogBytes int64    `json:"log_bytes,omitempty"`
}

type countWriter struct{ n atomic.Int64 }

func (c *countWriter) Write(p []byte) (int, error) { c.n.Add(int64(len(p))); return len(p), nil }

func childMain() {
	var req childReq
	if err := json.NewDecoder(os.Stdin).Decode(&req); err != nil {
		vx.Die("child: %v", err)
	}
	daemon.VerifYield = hookFn
	setNames(req.Names)
	var d daemon.Daemon = daemon.New()
	if req.API == "pkg" {
		d = pkgAPI{}
	}
	cw := &countWriter{}
	if req.Logger {
		d.DebugLogger(log.NewLogger(log.WithOutput(cw), log.WithLevel(log.LevelDebug)))
	}
	var resp childResp
	switch req.Mode {
	case "script":
		resp.Seen, resp.Want, resp.TimedOut, resp.Why = runScript(d, req.Pool, req.Ops, 150*time.Microsecond)
	case "free":
		resp.Desc, resp.Events, resp.Hung, resp.Why = freeRun(vx.NewRng(req.Seed), d)
	case "rereg":
		resp.Events, resp.Hung = reregRun(vx.NewRng(req.Seed), d)
	default:
		vx.Die("child: unknown mode %q", req.Mode)
	}
	resp.LogBytes = cw.n.Load()
	if err := json.NewEncoder(os.Stdout).Encode(resp); err != nil {
		vx.Die("child: %v", err)
	}
}

// runChild runs one scenario in a fresh process (watchdog: the process is killed after 60 s).
func runChild(req childReq) (childResp, error) {
	var resp childResp
	in, _ := json.Marshal(req)
	ctx, cancel := context.WithTimeout(context.Background(), 60*time.Second)
	defer cancel()
	cmd := exec.CommandContext(ctx, os.Args[0], "child")
	cmd.Stdin = bytes.NewReader(in)
	var stdout, stderr bytes.Buffer
	cmd.Stdout, cmd.Stderr = &stdout, &stderr
	if err := cmd.Run(); err != nil {
		tail := stderr.String()
		if len(tail) > 1500 {
			tail = tail[:1500]
		}
		return resp, fmt.Errorf("child process failed: %v: %s", err, tail)
	}
	if err := json.Unmarshal(stdout.Bytes(), &resp); err != nil {
		return resp, fmt.Errorf("child process output: %v", err)
	}
	return resp, nil
}

// ---------- script generation ----------

var orderSet = []int64{-7, -1, 0, 0, 1, 1, 2, 5, 5, 40}

// extreme orders: the ends of int ("shut down first" / "last" sentinels), their neighbours, the values around 0, and
// values that collide or change sign when an order is narrowed to 32 bits; many pairs are more than MaxInt apart.
var extremeSet = []int64{int64(math.MinInt), int64(math.MinInt), int64(math.MinInt) + 1, -1, 0, 0, 1, int64(math.MaxInt) - 1,
	int64(math.MaxInt), int64(math.MaxInt), 10, -2, 5, 1<<32 + 5, 1 << 31, -(1 << 31) - 1}

// pickPalette: ordinary orders, extreme orders, or only two values (many ties).
func pickPalette(r *vx.Rng) ([]int64, string) {
	switch x := r.Intn(100); {
	case x < 50:
		return orderSet, "ordinary"
	case x < 82:
		return extremeSet, "extreme"
	default:
		u := append(append([]int64{}, orderSet...), extremeSet...)
		return []int64{vx.Pick(r, u), vx.Pick(r, u)}, "two-values"
	}
}

// farApart: two of the orders differ by more than MaxInt (their difference does not fit into an int).
func farApart(orders []int64) bool {
	for _, a := range orders {
		for _, b := range orders {
			if a < 0 && b > 0 && b > a+int64(math.MaxInt) {
				return true
			}
		}
	}
	return false
}

func genScript(r *vx.Rng) ([]call, []op) {
	pal, _ := pickPalette(r)
	var pool []call
	var ops []op
	s := newSim(nil)
	add := func(c call) int { pool = append(pool, c); s.pool = pool; return len(pool) - 1 }
	do := func(o op) { ops = append(ops, o); s.apply(o) }
	nOps := 6 + r.Intn(12)
	shuts, starts, runIssued := 0, 0, false
	nNames := 2 + r.Intn(3)
	startEarly := r.Chance(1, 3)
	for len(ops) < nOps {
		x := r.Intn(100)
		liveFree := []int{}
		for _, w := range s.all {
			if w.live && w.kind == kFree {
				liveFree = append(liveFree, w.idx)
			}
		}
		paused := []int{}
		for t := range s.pausedBW {
			paused = append(paused, t)
		}
		for t := range s.pausedStart {
			paused = append(paused, t)
		}
		sort.Ints(paused)
		switch {
		case x < 45: // BackgroundWorker
			if runIssued && !s.stopped {
				continue // D20b region (known finding): no worker is started after Run began
			}
			if s.stopped && !r.Chance(1, 3) {
				continue
			}
			c := call{Kind: cBW, Name: r.Intn(nNames), Order: vx.Pick(r, pal), WKind: r.Intn(2)}
			t := add(c)
			if !s.stopped && r.Chance(1, 6) && !runIssued {
				do(op{Kind: opSteps, T: t, K: 1})
			} else {
				do(op{Kind: opGo, T: t})
			}
		case x < 60: // Start
			if starts >= 2 || (!startEarly && len(s.all) < 2 && !r.Chance(1, 2)) {
				continue
			}
			starts++
			t := add(call{Kind: cStart})
			switch {
			case !s.stopped && !s.running && r.Chance(1, 4) && !runIssued:
				do(op{Kind: opSteps, T: t, K: 1})
			case !s.stopped && !s.running && r.Chance(1, 3) && !runIssued:
				// hold Start inside its critical section; only shutdown callers arrive meanwhile
				do(op{Kind: opSteps, T: t, K: 3})
				for k := r.Intn(3); k > 0 && shuts < 3; k-- {
					shuts++
					do(op{Kind: opGo, T: add(call{Kind: cShut, Sync: r.Bool()})})
				}
				do(op{Kind: opGo, T: t})
			default:
				do(op{Kind: opGo, T: t})
			}
		case x < 65: // Run
			if runIssued || len(paused) > 0 || len(s.all) == 0 {
				continue
			}
			runIssued = true
			do(op{Kind: opGo, T: add(call{Kind: cRun})})
		case x < 80: // release a free body
			if len(liveFree) == 0 {
				continue
			}
			do(op{Kind: opRelease, T: vx.Pick(r, liveFree)})
		case x < 90: // shutdown caller
			if shuts >= 3 || ((len(ops) < 5 || !s.running) && !s.stopped && !r.Chance(1, 8)) {
				continue
			}
			shuts++
			do(op{Kind: opGo, T: add(call{Kind: cShut, Sync: r.Bool()})})
		default: // resume a held call
			if len(paused) == 0 {
				continue
			}
			do(op{Kind: opGo, T: vx.Pick(r, paused)})
		}
	}
	// wind down: resume held calls, one synchronous shutdown, release every live free body
	for t := range pool {
		if s.pausedBW[t] || s.pausedStart[t] > 0 {
			do(op{Kind: opGo, T: t})
		}
	}
	do(op{Kind: opGo, T: add(call{Kind: cShut, Sync: true})})
	for {
		rel := -1
		for _, w := range s.all {
			if w.live && w.kind == kFree && (rel < 0 || r.Bool()) {
				rel = w.idx
			}
		}
		if rel < 0 {
			break
		}
		do(op{Kind: opRelease, T: rel})
	}
	return pool, ops
}

// directed regression scripts: D20a (two windows), D20c (two windows), ties, early return, re-registration
func directed() [][2]any {
	bw := func(n int, o int64, k int) call { return call{Kind: cBW, Name: n, Order: o, WKind: k} }
	return [][2]any{
		// D20a: b passes the IsStopped check, shutdown snapshots {a} and waits for a, b resumes
		{[]call{{Kind: cStart}, bw(0, 1, kFree), bw(1, 0, kOnCancel), {Kind: cShut, Sync: true}},
			[]op{{opGo, 0, 0}, {opGo, 1, 0}, {opSteps, 2, 1}, {opGo, 3, 0}, {opGo, 2, 0}, {opRelease, 1, 0}}},
		// D20a: b resumes after the shutdown completed (pinned: assignment to entry in nil map)
		{[]call{{Kind: cStart}, bw(0, 1, kOnCancel), bw(1, 0, kOnCancel), {Kind: cShut, Sync: true}},
			[]op{{opGo, 0, 0}, {opGo, 1, 0}, {opSteps, 2, 1}, {opGo, 3, 0}, {opGo, 2, 0}}},
		// D20c: Start passes the IsStopped check, ShutdownAndWait returns (not running), Start resumes
		{[]call{bw(0, 0, kOnCancel), {Kind: cStart}, {Kind: cShut, Sync: true}},
			[]op{{opGo, 0, 0}, {opSteps, 1, 1}, {opGo, 2, 0}, {opGo, 1, 0}}},
		// D20c: Start is inside its critical section when ShutdownAndWait arrives
		{[]call{bw(0, 3, kOnCancel), bw(1, 1, kFree), {Kind: cStart}, {Kind: cShut, Sync: true}, {Kind: cShut, Sync: false}},
			[]op{{opGo, 0, 0}, {opGo, 1, 0}, {opSteps, 2, 3}, {opGo, 3, 0}, {opGo, 4, 0}, {opGo, 2, 0}, {opRelease, 1, 0}}},
		// a registration that begins while Start holds the lock and the stopped flag is already set returns at once
		{[]call{bw(0, 0, kOnCancel), {Kind: cStart}, {Kind: cShut, Sync: true}, bw(1, 0, kOnCancel)},
			[]op{{opGo, 0, 0}, {opSteps, 1, 3}, {opGo, 2, 0}, {opGo, 3, 0}, {opGo, 1, 0}}},
		// ties are cancelled together, a lower order waits for the whole group
		{[]call{{Kind: cStart}, bw(0, 2, kFree), bw(1, 2, kFree), bw(2, 2, kOnCancel), bw(3, -1, kOnCancel), {Kind: cShut, Sync: true}},
			[]op{{opGo, 0, 0}, {opGo, 1, 0}, {opGo, 2, 0}, {opGo, 3, 0}, {opGo, 4, 0}, {opGo, 5, 0}, {opRelease, 1, 0}, {opRelease, 2, 0}}},
		// a worker finished before shutdown, its name is registered again under another order
		{[]call{{Kind: cStart}, bw(0, 5, kFree), bw(0, 1, kOnCancel), bw(1, 3, kFree), bw(0, -1, kFree), {Kind: cShut, Sync: true}},
			[]op{{opGo, 0, 0}, {opGo, 1, 0}, {opGo, 2, 0}, {opRelease, 1, 0}, {opGo, 3, 0}, {opGo, 4, 0}, {opGo, 5, 0}, {opRelease, 3, 0}, {opRelease, 4, 0}}},
	}
}

// directedExtreme: orders at the ends of int next to ordinary ones; every higher-order worker returns only when released,
// so a lower order that is cancelled too early (or a ShutdownAndWait that returns too early) is observed.
func directedExtreme() [][2]any {
	bw := func(n int, o int64, k int) call { return call{Kind: cBW, Name: n, Order: o, WKind: k} }
	lo, hi := int64(math.MinInt), int64(math.MaxInt)
	return [][2]any{
		// MinInt ("last") next to 10, MaxInt ("first") next to both; registered while running
		{[]call{{Kind: cStart}, bw(0, 10, kFree), bw(1, lo, kOnCancel), bw(2, hi, kFree), {Kind: cShut, Sync: true}},
			[]op{{opGo, 0, 0}, {opGo, 1, 0}, {opGo, 2, 0}, {opGo, 3, 0}, {opGo, 4, 0}, {opRelease, 3, 0}, {opRelease, 1, 0}}},
		// registered before Start, in ascending order; -1 / 1 around the default; asynchronous shutdown first
		{[]call{bw(0, lo, kFree), bw(1, -1, kFree), bw(2, 1, kFree), bw(3, hi, kFree), {Kind: cStart}, {Kind: cShut}, {Kind: cShut, Sync: true}},
			[]op{{opGo, 0, 0}, {opGo, 1, 0}, {opGo, 2, 0}, {opGo, 3, 0}, {opGo, 4, 0}, {opGo, 5, 0}, {opGo, 6, 0},
				{opRelease, 3, 0}, {opRelease, 2, 0}, {opRelease, 1, 0}, {opRelease, 0, 0}}},
		// ties at both ends and their neighbours
		{[]call{{Kind: cStart}, bw(0, lo, kFree), bw(1, hi, kFree), bw(2, lo, kOnCancel), bw(3, hi, kOnCancel), {Kind: cShut, Sync: true}},
			[]op{{opGo, 0, 0}, {opGo, 1, 0}, {opGo, 2, 0}, {opGo, 3, 0}, {opGo, 4, 0}, {opGo, 5, 0}, {opRelease, 2, 0}, {opRelease, 1, 0}}},
		{[]call{bw(0, lo+1, kFree), bw(1, lo, kFree), bw(2, hi-1, kFree), bw(3, hi, kFree), {Kind: cRun}, {Kind: cShut, Sync: true}},
			[]op{{opGo, 0, 0}, {opGo, 1, 0}, {opGo, 2, 0}, {opGo, 3, 0}, {opGo, 4, 0}, {opGo, 5, 0},
				{opRelease, 3, 0}, {opRelease, 2, 0}, {opRelease, 0, 0}, {opRelease, 1, 0}}},
		// a name moves from one end to the other by re-registration; 0 in between
		{[]call{{Kind: cStart}, bw(0, hi, kFree), bw(1, 0, kFree), bw(0, lo, kOnCancel), bw(2, 1<<32+5, kFree), bw(3, 5, kFree), {Kind: cShut, Sync: true}},
			[]op{{opGo, 0, 0}, {opGo, 1, 0}, {opGo, 2, 0}, {opRelease, 1, 0}, {opGo, 3, 0}, {opGo, 4, 0}, {opGo, 5, 0}, {opGo, 6, 0},
				{opRelease, 4, 0}, {opRelease, 5, 0}, {opRelease, 2, 0}}},
	}
}

// ---------- free-running mode ----------

func resOK(code int) bool { return code == 0 }

// Go-side oracle: the history predicate (same meaning as Model.hist_ok / run_ok; independent implementation, oldest first)
func histOK(evs []event) (bool, bool, string) {
	type ws struct {
		order    int64
		name     int
		returned bool
	}
	started := map[int]*ws{}
	shutSeen := false
	begunAfter := map[int]bool{}
	nameOf := map[int]int{}
	hist, run, why := true, true, ""
	allRet := func() bool {
		for _, w := range started {
			if !w.returned {
				return false
			}
		}
		return true
	}
	for i, e := range evs {
		switch e.Kind {
		case evBegin:
			begunAfter[e.A] = shutSeen
			nameOf[e.A] = e.B
		case evBW:
			if e.B > 3 {
				hist, why = false, fmt.Sprintf("event %d: BackgroundWorker call %d panicked or returned an unknown error (code %d)", i, e.A, e.B)
			}
			if e.B == 0 {
				if begunAfter[e.A] {
					hist, why = false, fmt.Sprintf("event %d: BackgroundWorker call %d begun after a shutdown returned was accepted", i, e.A)
				}
				for v, w := range started {
					if w.name == nameOf[e.A] && v != e.A && !w.returned {
						hist, why = false, fmt.Sprintf("event %d: name %d registered by call %d while worker %d of that name has not returned", i, w.name, e.A, v)
					}
				}
			}
		case evStart:
			if shutSeen {
				hist, why = false, fmt.Sprintf("event %d: worker %d entered its body after a shutdown returned", i, e.A)
			}
			started[e.A] = &ws{order: e.O, name: e.B}
		case evCancel:
			if w := started[e.A]; w != nil && !w.returned {
				for v, x := range started {
					if x.order > w.order && !x.returned {
						hist, why = false, fmt.Sprintf("event %d: worker %d (order %d) cancelled while worker %d (order %d) has not returned", i, e.A, w.order, v, x.order)
					}
				}
			}
		case evReturn:
			if w := started[e.A]; w != nil {
				w.returned = true
			}
		case evShutRet:
			if !allRet() {
				hist, why = false, fmt.Sprintf("event %d: ShutdownAndWait (call %d) returned while a started worker has not returned", i, e.A)
			}
			shutSeen = true
		case evRunRet:
			if !allRet() {
				run = false
			}
		}
	}
	return hist, run, why
}

func coqLog(evs []event) string {
	items := make([]string, len(evs))
	for i, e := range evs {
		items[len(evs)-1-i] = e.coq() // newest first
	}
	return vx.List(items)
}

type freeDesc struct {
	Pool   []call  `json:"pool"`
	Seed   uint64  `json:"seed"`
	Events []event `json:"events,omitempty"`
}

// freeRun: concurrent clients on one daemon; every goroutine under a watchdog.
func freeRun(r *vx.Rng, d daemon.Daemon) (freeDesc, []event, bool, string) {
	nW := 3 + r.Intn(6)
	nNames := 2 + r.Intn(4)
	pal, _ := pickPalette(r)
	var pool []call
	for i := 0; i < nW; i++ {
		pool = append(pool, call{Kind: cBW, Name: r.Intn(nNames), Order: vx.Pick(r, pal), WKind: r.Intn(2)})
	}
	startAt := r.Intn(3)
	if r.Chance(1, 8) {
		startAt = r.Intn(nW + 1)
	}
	nShut := 1 + r.Intn(3)
	withRun := r.Chance(1, 4)
	rec := &recorder{}
	var wg sync.WaitGroup
	us := func(n int) time.Duration { return time.Duration(r.Intn(n)) * time.Microsecond }
	mkBody := func(t int, c call, early, late time.Duration) daemon.WorkerFunc {
		return func(ctx context.Context) {
			rec.add(event{Kind: evStart, A: t, B: c.Name, O: c.Order})
			if c.WKind == kOnCancel {
				<-ctx.Done()
				rec.add(event{Kind: evCancel, A: t})
				time.Sleep(late)
			} else {
				tm := time.NewTimer(early)
				select {
				case <-ctx.Done():
					rec.add(event{Kind: evCancel, A: t})
					<-tm.C
				case <-tm.C:
				}
			}
			rec.add(event{Kind: evReturn, A: t})
		}
	}
	bwCall := func(t int, c call, early, late time.Duration) {
		rec.add(event{Kind: evBegin, A: t, B: c.Name})
		code := 9
		func() {
			defer func() { _ = recover() }()
			code = errCode(registerShaped(d, t, wname(c.Name), mkBody(t, c, early, late), int(c.Order)))
		}()
		rec.add(event{Kind: evBW, A: t, B: code})
	}
	// per-call random parameters are drawn up front (the Rng is not goroutine-safe)
	early := make([]time.Duration, nW)
	late := make([]time.Duration, nW)
	gap := make([]time.Duration, nW)
	for i := range early {
		early[i], late[i], gap[i] = us(1500), us(400), us(150)
	}
	split := 1 + r.Intn(nW)
	if withRun {
		split = nW // every registration precedes Run (a worker started after Run began is the known finding D20b)
	}
	lateDelay := us(800)
	shutDelay := make([]time.Duration, nShut)
	shutSync := make([]bool, nShut)
	for j := range shutDelay {
		shutDelay[j], shutSync[j] = us(1200), r.Bool()
	}
	id := nW
	var startedFlag atomic.Bool
	waitStart := !r.Chance(1, 8) // mostly the shutdown callers arrive after Start/Run was called
	runID := id
	wg.Add(1)
	go func() { // client 0: registrations, Start/Run in the middle
		defer wg.Done()
		for i := 0; i < split; i++ {
			if i == startAt && !withRun {
				d.Start()
				startedFlag.Store(true)
			}
			bwCall(i, pool[i], early[i], late[i])
			time.Sleep(gap[i])
		}
		if split <= startAt && !withRun {
			d.Start()
			startedFlag.Store(true)
		}
	}()
	wg.Add(1)
	go func() { // client 1: late registrations racing the shutdown
		defer wg.Done()
		time.Sleep(lateDelay)
		for i := split; i < nW; i++ {
			bwCall(i, pool[i], early[i], late[i])
			time.Sleep(gap[i])
		}
	}()
	if withRun {
		pool = append(pool, call{Kind: cRun})
		id++
	}
	for j := 0; j < nShut; j++ {
		t := id
		id++
		pool = append(pool, call{Kind: cShut, Sync: shutSync[j]})
		wg.Add(1)
		go func(j, t int) {
			defer wg.Done()
			if waitStart {
				waitUntil(startedFlag.Load)
			}
			time.Sleep(shutDelay[j])
			if shutSync[j] {
				d.ShutdownAndWait()
				rec.add(event{Kind: evShutRet, A: t})
			} else {
				d.Shutdown()
			}
		}(j, t)
	}
	if withRun {
		wg.Add(1)
		go func() {
			defer wg.Done()
			// all registrations are issued by client 0 before (split == nW): wait for them, then Run
			for {
				n := 0
				for _, e := range rec.snapshot(0) {
					if e.Kind == evBW {
						n++
					}
				}
				if n >= nW {
					break
				}
				time.Sleep(20 * time.Microsecond)
			}
			startedFlag.Store(true)
			d.Run()
			rec.add(event{Kind: evRunRet, A: runID})
		}()
	}
	fin := make(chan struct{})
	go func() {
		wg.Wait()
		final := id
		d.ShutdownAndWait()
		rec.add(event{Kind: evShutRet, A: final})
		close(fin)
	}()
	pool = append(pool, call{Kind: cShut, Sync: true})
	hung := false
	select {
	case <-fin:
	case <-time.After(watchdog):
		hung = true
	}
	evs := rec.snapshot(0)
	// bodies of refused registrations never run: account for them, then wait for the started ones
	started, returned := 0, 0
	for _, e := range evs {
		if e.Kind == evStart {
			started++
		}
		if e.Kind == evReturn {
			returned++
		}
	}
	if !hung && started != returned {
		// a started body that has not returned after the final ShutdownAndWait: give it the watchdog, then report
		ok := waitUntil(func() bool {
			n := 0
			for _, e := range rec.snapshot(0) {
				if e.Kind == evReturn {
					n++
				}
			}
			return n >= started
		})
		_ = ok
		evs = rec.snapshot(0)
	}
	why := ""
	if !hung {
		// read-only API after the final ShutdownAndWait
		if !waitUntil(func() bool { why = quiescentState(d, false, true, nil, nil); return why == "" }) {
			why = "after the final ShutdownAndWait: " + why
		}
	}
	return freeDesc{Pool: pool}, evs, hung, why
}

// D20b (known finding): Run waits on a snapshot of the wait groups
func d20b() (evs []event, reproduced, hung bool) {
	d := daemon.New()
	rec := &recorder{}
	relA := make(chan struct{})
	rec.add(event{Kind: evBegin, A: 0, B: 0})
	_ = d.BackgroundWorker("a", func(ctx context.Context) {
		rec.add(event{Kind: evStart, A: 0, B: 0, O: 1})
		<-relA
		rec.add(event{Kind: evReturn, A: 0})
	}, 1)
	rec.add(event{Kind: evBW, A: 0, B: 0})
	runDone := make(chan struct{})
	go func() { d.Run(); rec.add(event{Kind: evRunRet, A: 1}); close(runDone) }()
	waitUntil(func() bool { return len(rec.snapshot(0)) >= 3 })
	time.Sleep(20 * time.Millisecond) // let Run take its snapshot of the wait groups
	rec.add(event{Kind: evBegin, A: 2, B: 1})
	bEntered := make(chan struct{})
	_ = d.BackgroundWorker("b", func(ctx context.Context) {
		rec.add(event{Kind: evStart, A: 2, B: 1, O: 0})
		close(bEntered)
		<-ctx.Done()
		rec.add(event{Kind: evCancel, A: 2})
		rec.add(event{Kind: evReturn, A: 2})
	}, 0)
	rec.add(event{Kind: evBW, A: 2, B: 0})
	<-bEntered
	close(relA)
	select {
	case <-runDone:
		reproduced = true
	case <-time.After(300 * time.Millisecond):
	}
	fin := make(chan struct{})
	go func() { d.ShutdownAndWait(); rec.add(event{Kind: evShutRet, A: 3}); <-runDone; close(fin) }()
	select {
	case <-fin:
	case <-time.After(watchdog):
		hung = true
	}
	return rec.snapshot(0), reproduced, hung
}

// reregRun: a name is registered again the moment its previous worker is gone (the worker goroutine cleans up
// concurrently); every accepted worker must still be stopped by the final ShutdownAndWait.
func reregRun(r *vx.Rng, d daemon.Daemon) ([]event, bool) {
	rec := &recorder{}
	d.Start()
	id := 0
	pal, _ := pickPalette(r)
	for name := 0; name < 3; name++ {
		chain := 2 + r.Intn(4)
		for k := 0; k < chain; k++ {
			i, order := id, vx.Pick(r, pal)
			id++
			rel := make(chan struct{})
			entered := make(chan struct{})
			body := func(ctx context.Context) {
				rec.add(event{Kind: evStart, A: i, B: name, O: order})
				close(entered)
				select {
				case <-ctx.Done():
					rec.add(event{Kind: evCancel, A: i})
				case <-rel:
				}
				rec.add(event{Kind: evReturn, A: i})
			}
			rec.add(event{Kind: evBegin, A: i, B: name})
			code := 3
			for dl := time.Now().Add(watchdog); code == 3 && time.Now().Before(dl); { // tight spin: hit the cleanup window
				code = errCode(registerShaped(d, i, wname(name), body, int(order)))
			}
			rec.add(event{Kind: evBW, A: i, B: code})
			if code != 0 {
				return rec.snapshot(0), true
			}
			select {
			case <-entered:
			case <-time.After(watchdog):
				return rec.snapshot(0), true
			}
			if k < chain-1 {
				close(rel) // returns early; the last worker of each name stays until it is cancelled
			}
		}
	}
	fin := make(chan struct{})
	go func() { d.ShutdownAndWait(); rec.add(event{Kind: evShutRet, A: id}); close(fin) }()
	select {
	case <-fin:
	case <-time.After(watchdog):
		return rec.snapshot(0), true
	}
	return rec.snapshot(0), false
}

// ---------- main ----------

func main() {
	if len(os.Args) < 2 {
		vx.Die("usage: hx-c20 all [--scripts N] [--free M] [--pkg P] [--pkgfree Q] --seed S --out cases.v --stats stats.json")
	}
	if os.Args[1] == "child" {
		childMain()
		return
	}
	fs := flag.NewFlagSet(os.Args[1], flag.ExitOnError)
	nScripts := fs.Int("scripts", 250, "random scripts (New() instance)")
	nFree := fs.Int("free", 120, "free-running histories (New() instance)")
	nPkg := fs.Int("pkg", 60, "random scripts through the package-level functions (default instance; one child process each)")
	nPkgFree := fs.Int("pkgfree", 24, "free-running histories through the package-level functions (child processes)")
	noDirected := fs.Bool("nodirected", false, "skip the directed scripts (mutation sanity: what do the random generators find on their own)")
	seed := fs.Uint64("seed", 1, "seed")
	out := fs.String("out", "cases.v", "cases file")
	statsP := fs.String("stats", "stats.json", "stats file")
	_ = fs.Parse(os.Args[2:])
	daemon.VerifYield = hookFn

	rng := vx.NewRng(*seed)
	st := vx.NewStats("a script counts as non-trivial when a shutdown cancelled live workers of at least two distinct orders, or a call was held at a yield point, or a body returned before the shutdown; a free-running history when it contains a cancel of a live worker and at least two distinct orders")
	cf := &vx.CasesFile{
		Header: "From Coq Require Import ZArith List Bool.\nFrom Verif.C20_Daemon Require Import Model Corr.\nImport ListNotations.\n",
		Type:   "case",
		Footer: "Definition M := Eval vm_compute in mismatches cases.\nPrint M.",
	}
	// failures are capped per API (4 each), so that a defect of one entry-point family does not hide the other
	failures := map[string]int{}
	// a case on which only the read-only API disagrees (IsRunning, IsStopped, ContextStopped, GetRunningBackgroundWorkers)
	// while the shutdown order itself was kept: reported after the order failures, at most 2 per API, and not counted
	// against the cap (so it cannot hide an order violation found later)
	roFails := map[string][]any{}
	childNo, caseNo := 0, 0
	doScript := func(tag, api string, pool []call, ops []op) {
		var seen, want []obs
		var timedOut bool
		var why string
		// concrete names of this case: the palettes in rotation (not drawn from the generator's random stream)
		caseNo++
		setNames(caseNo)
		desc := map[string]any{"mode": "script", "tag": tag, "api": api, "pool": pool, "ops": ops, "names": shownNames(), "name_palette": namePal}
		st.Count(fmt.Sprintf("names:script-palette-%d(%s)", namePal, paletteTag[namePal]))
		if api == "instance" {
			seen, want, timedOut, why = runScript(daemon.New(), pool, ops, 150*time.Microsecond)
		} else {
			childNo++
			logger := childNo%3 == 0
			desc["debug_logger"] = logger
			resp, err := runChild(childReq{Mode: "script", API: api, Logger: logger, Pool: pool, Ops: ops, Names: namePal})
			if err != nil {
				failures[api]++
				desc["why"] = err.Error()
				st.Fail(desc)
				return
			}
			seen, want, timedOut, why = resp.Seen, resp.Want, resp.TimedOut, resp.Why
			if logger && resp.LogBytes > 0 {
				st.Count("api:debug-logger-wrote-output")
			}
		}
		desc["seen"] = seen
		st.CaseIndex = append(st.CaseIndex, desc)
		cf.Add(fmt.Sprintf("CScript %s %s %s",
			vx.ListOf(pool, func(c call) string { return c.coq() }),
			vx.ListOf(ops, func(o op) string { return o.coq() }),
			vx.ListOf(seen, func(o obs) string { return o.coq() })))
		bad := timedOut || len(seen) != len(want)
		for i := range seen {
			if i < len(want) && seen[i].key() != want[i].key() {
				bad = true
			}
		}
		if bad || why != "" {
			desc["expected"] = want
			desc["timed_out"] = timedOut
			if why != "" {
				desc["why"] = why
			}
			if bad {
				failures[api]++
				st.Fail(desc)
			} else if len(roFails[api]) < 2 {
				desc["kind"] = "read-only-api"
				roFails[api] = append(roFails[api], desc)
			}
		}
		orders := map[int64]bool{}
		hooked, early := false, false
		cancels := 0
		for i, o := range ops {
			if o.Kind == opSteps {
				hooked = true
			}
			if i < len(seen) {
				for _, x := range seen[i].Cancels {
					orders[pool[x].Order] = true
					cancels++
				}
				if cancels == 0 && len(seen[i].Returns) > 0 {
					early = true
				}
			}
		}
		var sb strings.Builder
		sb.WriteString(api)
		for _, c := range pool {
			sb.WriteString(c.coq())
		}
		for _, o := range ops {
			sb.WriteString(o.coq())
		}
		st.Case(sb.String(), len(orders) >= 2 || hooked || early)
		st.Count(fmt.Sprintf("script:%s ops=%d-%d", tag, len(ops)/5*5, len(ops)/5*5+4))
		st.Count("api:script-through-" + api)
		if hooked {
			st.Count("script:held-at-yield-point")
		}
		if early {
			st.Count("script:body-returned-before-shutdown")
		}
		if len(orders) >= 2 {
			st.Count("script:>=2-order-groups-cancelled")
		}
		var os64 []int64
		ext := false
		for o := range orders {
			os64 = append(os64, o)
			if o == int64(math.MinInt) || o == int64(math.MaxInt) {
				ext = true
			}
		}
		if ext {
			st.Count("script:cancelled-live-worker-of-order-MinInt-or-MaxInt")
		}
		if farApart(os64) {
			st.Count("script:cancelled-orders-more-than-MaxInt-apart")
		}
		st.Sample(desc, 3)
	}
	for _, dcase := range directed() {
		if !*noDirected {
			doScript("directed", "instance", dcase[0].([]call), dcase[1].([]op))
		}
	}
	for _, dcase := range directedExtreme() {
		if !*noDirected {
			doScript("directed-extreme", "instance", dcase[0].([]call), dcase[1].([]op))
		}
	}
	// the same directed scripts through the package-level functions (default instance), one child process each
	if *nPkg > 0 && !*noDirected {
		for _, dcase := range append(directed(), directedExtreme()...) {
			if failures["pkg"] < 4 {
				doScript("directed", "pkg", dcase[0].([]call), dcase[1].([]op))
			}
		}
	}
	// D20b directed (known finding)
	{
		evs, reproduced, hung := d20b()
		h, rn, why := histOK(evs)
		if hung {
			h, why = false, "ShutdownAndWait did not return"
		}
		st.CaseIndex = append(st.CaseIndex, map[string]any{"mode": "d20b", "events": evs})
		cf.Add(fmt.Sprintf("CLog %s %s %s", coqLog(evs), vx.Bool(h), vx.Bool(rn)))
		st.Case("d20b", true)
		if reproduced && !rn {
			st.Known = append(st.Known, "run-returns-before-late-worker")
		}
		if !h {
			st.Fail(map[string]any{"mode": "d20b", "why": why, "events": evs})
		}
	}
	for i := 0; i < *nScripts && failures["instance"] < 4; i++ {
		pool, ops := genScript(rng.Fork())
		doScript("random", "instance", pool, ops)
	}
	for i := 0; i < *nPkg && failures["pkg"] < 4; i++ {
		pool, ops := genScript(rng.Fork())
		doScript("random", "pkg", pool, ops)
	}
	doLog := func(mode, api string, desc freeDesc, evs []event, hung bool, post string, runMatters bool) {
		h, rn, why := histOK(evs)
		idx := map[string]any{"mode": mode, "api": api, "events": evs, "names": shownNames(), "name_palette": namePal}
		st.Count(fmt.Sprintf("names:%s-palette-%d(%s)", mode, namePal, paletteTag[namePal]))
		if mode == "free" {
			idx["pool"] = desc.Pool
		}
		st.CaseIndex = append(st.CaseIndex, idx)
		cf.Add(fmt.Sprintf("CLog %s %s %s", coqLog(evs), vx.Bool(h), vx.Bool(rn)))
		orders := map[int64]bool{}
		var os64 []int64
		cancels := 0
		for _, e := range evs {
			if e.Kind == evStart && !orders[e.O] {
				orders[e.O] = true
				os64 = append(os64, e.O)
			}
			if e.Kind == evCancel {
				cancels++
			}
		}
		st.Count("api:" + mode + "-through-" + api)
		if mode == "free" {
			st.Case(api+fmt.Sprint(evs), cancels > 0 && len(orders) >= 2)
			st.Count(fmt.Sprintf("free:distinct-orders-started=%d", len(orders)))
			if cancels > 0 {
				st.Count("free:with-cancel-of-live-worker")
			}
			if farApart(os64) {
				st.Count("free:started-orders-more-than-MaxInt-apart")
			}
		} else {
			st.Case(api+fmt.Sprint(evs), true)
			st.Count("rereg:same-name-registered-again-immediately")
		}
		if post != "" && why == "" {
			why = post
		}
		if hung || !h || (runMatters && !rn) || post != "" {
			idx["why"] = why
			idx["hung"] = hung
			idx["run_ok"] = rn
			if hung || !h || (runMatters && !rn) {
				failures[api]++
				st.Fail(idx)
			} else if len(roFails[api]) < 2 {
				idx["kind"] = "read-only-api"
				roFails[api] = append(roFails[api], idx)
			}
		}
	}
	childLog := func(mode string, seed uint64) {
		childNo++
		caseNo++
		setNames(caseNo)
		req := childReq{Mode: mode, API: "pkg", Logger: childNo%3 == 0, Seed: seed, Names: namePal}
		resp, err := runChild(req)
		if err != nil {
			failures["pkg"]++
			st.Fail(map[string]any{"mode": mode, "api": "pkg", "child_seed": seed, "why": err.Error(), "names": shownNames(), "name_palette": namePal})
			return
		}
		doLog(mode, "pkg", resp.Desc, resp.Events, resp.Hung, resp.Why, mode == "free")
	}
	for i := 0; i < *nFree/4 && failures["instance"] < 4; i++ {
		caseNo++
		setNames(caseNo)
		evs, hung := reregRun(rng.Fork(), daemon.New())
		doLog("rereg", "instance", freeDesc{}, evs, hung, "", false)
	}
	for i := 0; i < *nPkgFree/4 && failures["pkg"] < 4; i++ {
		childLog("rereg", rng.U64())
	}
	for i := 0; i < *nFree && failures["instance"] < 4; i++ {
		caseNo++
		setNames(caseNo)
		desc, evs, hung, post := freeRun(rng.Fork(), daemon.New())
		doLog("free", "instance", desc, evs, hung, post, true)
	}
	for i := 0; i < *nPkgFree && failures["pkg"] < 4; i++ {
		childLog("free", rng.U64())
	}
	for _, api := range []string{"instance", "pkg"} {
		for _, f := range roFails[api] {
			st.Fail(f)
		}
	}
	if err := cf.Write(*out); err != nil {
		vx.Die("%v", err)
	}
	if err := st.Write(*statsP); err != nil {
		vx.Die("%v", err)
	}
}
