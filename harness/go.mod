module verif/harness

go 1.22

require (
	github.com/iotaledger/hive.go/ads v0.0.0
	github.com/iotaledger/hive.go/app v0.0.0
	github.com/iotaledger/hive.go/constraints v0.0.0
	github.com/iotaledger/hive.go/core v0.0.0
	github.com/iotaledger/hive.go/crypto v0.0.0
	github.com/iotaledger/hive.go/ds v0.0.0
	github.com/iotaledger/hive.go/ierrors v0.0.0
	github.com/iotaledger/hive.go/kvstore v0.0.0
	github.com/iotaledger/hive.go/lo v0.0.0
	github.com/iotaledger/hive.go/log v0.0.0
	github.com/iotaledger/hive.go/runtime v0.0.0
	github.com/iotaledger/hive.go/serializer/v2 v2.0.0
	github.com/iotaledger/hive.go/stringify v0.0.0
	github.com/iotaledger/hive.go/web v0.0.0
)

require (
	github.com/ethereum/go-ethereum v1.13.14 // indirect
	github.com/holiman/uint256 v1.2.4 // indirect
	github.com/iancoleman/orderedmap v0.3.0 // indirect
	github.com/kr/text v0.2.0 // indirect
	github.com/petermattis/goid v0.0.0-20231207134359-e60b3f734c67 // indirect
	github.com/pokt-network/smt v0.9.2 // indirect
	github.com/sasha-s/go-deadlock v0.3.1 // indirect
)

replace (
	github.com/iotaledger/hive.go/ads => /repo/ads
	github.com/iotaledger/hive.go/app => /repo/app
	github.com/iotaledger/hive.go/constraints => /repo/constraints
	github.com/iotaledger/hive.go/core => /repo/core
	github.com/iotaledger/hive.go/crypto => /repo/crypto
	github.com/iotaledger/hive.go/ds => /repo/ds
	github.com/iotaledger/hive.go/ierrors => /repo/ierrors
	github.com/iotaledger/hive.go/kvstore => /repo/kvstore
	github.com/iotaledger/hive.go/lo => /repo/lo
	github.com/iotaledger/hive.go/log => /repo/log
	github.com/iotaledger/hive.go/runtime => /repo/runtime
	github.com/iotaledger/hive.go/serializer/v2 => /repo/serializer
	github.com/iotaledger/hive.go/stringify => /repo/stringify
	github.com/iotaledger/hive.go/web => /repo/web
)
