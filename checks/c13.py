"""C13 reactive Variable/Event/Set subscriptions: interleaving model (coq/C13_Reactive) + correspondence
(sequential scripts vs model run; free-running racing goroutines judged by the model's log predicates; API family: every
exported mutator / subscription variant as a program of the model, harness/cmd/c13/api.go; wired family: a DerivedSet
that inherits from its sources AND is written directly / the result of SubtractReactive, the inheritance machinery as one
more writer of the set, harness/cmd/c13/wired.go). DESIGN.md §7.13."""
from . import lib

LEVEL = "proof"
DIRS = ["C13_Reactive"]


def run(ctx):
    thorough = ctx.tier == "thorough"
    hx = ctx.go_build("c13")
    ctx.proof_side(DIRS, "Properties/C13.v", extra_trusted=[
        "hand-written interleaving model of ds/reactive variable_impl.go, set_impl.go, event_impl.go, utils.go (Model.v), tied to the code by the correspondence check only",
        "atomicity of the model's steps: each step is a lock acquisition or a run of statements under one mutex without blocking; the thread-safe ds.List operations PushBack/Values/Remove are atomic",
        "finite sets of elements are modelled as bit masks (element i = bit i); Variable values as N",
        "storm runs (tight writers against subscribe/unsubscribe loops) are judged by the Go-side oracle only",
        "free-running runs: the global change order is recorded inside the compute function (Variable, under the value mutex) / taken from a permanent first subscriber and cross-checked with the writers' return values (Set)",
        "wired family (Api.wired_program): which net mutation the occurrence counts of ds.SetArithmetic yield for a source mutation is a hand transcription (arith_add / arith_sub) used to replay the sequential scripts, tied by the correspondence only (the contents of a DerivedSet as a function of its sources are C14's); the theorems hold for EVERY net mutation handed to the writer (KInherit m)",
        "API family (Api.v): Init, ToggleValue (+reset), DefaultTo, InheritFrom are the model's writer with the function the code hands to Compute; OnUpdateOnce / OnUpdateWithContext / WithValue / WithNonEmptyValue / LogUpdates / WithElements are Subscribe/Unsub programs whose user-visible callbacks are a function of the underlying log (observe / sobserve in Corr.v); free-running API runs record the change order inside the transformation function (it runs under the value mutex on every write path)",
    ])
    if thorough:
        for k in range(5):
            ctx.seed += 1000
            ctx.corr(hx, ["all", "--nseq", "600", "--nfree", "1500", "--nstorm", "30", "--len", "36", "--napi", "600", "--nfreeapi", "900", "--nwired", "500", "--nfreewired", "400"], cases_name="cases%d.v" % k)
        ctx.seed -= 5000
    else:
        ctx.corr(hx, ["all", "--nseq", "300", "--nfree", "400", "--nstorm", "8", "--napi", "200", "--nfreeapi", "150", "--nwired", "150", "--nfreewired", "60"])
    ctx.assumptions += [
        "guard: a callback does not synchronously call its own unsubscribe, nor a write method of the object it is subscribed to (self-deadlock on the execution / update-order mutex by construction; OnUpdateOnce uses `go unsubscribe()` for that reason)",
        "an unsubscribe closure is only called after the OnUpdate call that produced it has returned",
        "Go mutexes are modelled as fair-agnostic: the theorems hold for every schedule, no liveness claim is made",
    ]


def replay(ctx, obj):
    print(obj)
    run(ctx)
    return ctx.finish(LEVEL)
