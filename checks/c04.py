"""C04 KVStore views/wrappers/batches = one ordered map: hand model (coq/C04_KV) + correspondence on operation
histories over view trees, wrapper stacks and batches of the real mapdb/flushkv/debug (DESIGN.md §7.4)."""
import json, os
from . import lib

LEVEL = "proof"
DIRS = ["C04_KV"]

TRUSTED = [
    "hand-written model of kvstore/mapdb (mapdb.go, synced_map.go), utils.SortSlice, flushkv, debug (C04_KV/Model.v), tied to the code by the correspondence check only",
    "Go byte slices are modelled as values (list N): the copy/aliasing clauses are checked by the harness (every buffer scribbled after the call / after recording), not proved",
    "locks are not modelled (sequential histories; concurrency is C05); a call that does not return is reported by the harness watchdog",
]


def run(ctx):
    thorough = ctx.tier == "thorough"
    hx = ctx.go_build("c04")
    ctx.proof_side(DIRS, "Properties/C04.v", extra_trusted=TRUSTED)
    if thorough:
        for k in range(4):
            ctx.seed += 1000
            ctx.corr(hx, ["hist", "--n", "1500", "--len", "40"], cases_name="cases%d.v" % k)
        ctx.seed -= 4000
        ctx.corr(hx, ["exh", "--len", "3"], cases_name="cases_exh.v")
    else:
        ctx.corr(hx, ["hist", "--n", "500", "--len", "36"])
    ctx.assumptions += [
        "sequential histories only (one caller at a time); concurrent use of the same store is property C05",
        "iteration consumers are scripts: 'at callback j perform these plain history operations through any view / wrapper / batch, return false on the n-th call' (HIterRe; generated and modelled since round 2); a consumer that starts another re-entrant iteration inside a callback (nesting depth > 1) or creates views inside a callback is modelled (any op list) but not generated",
        "the realm buffer passed to WithRealm is not mutated by the caller afterwards (mapdb keeps that slice; outside the statement's aliasing clause, see notes/C04.md)",
        "the store below the wrappers is mapdb; flushkv/debug over another KVStore implementation inherit that store's behaviour",
    ]


def replay(ctx, obj):
    case = obj.get("case") or {}
    hist = case.get("history")
    if hist is None:
        print("replay file carries no history; re-running the check with its seed")
        ctx.seed = obj.get("seed", ctx.seed)
        run(ctx)
        return ctx.finish(LEVEL)
    hx = ctx.go_build("c04")
    p = os.path.join(ctx.build, "replay_in.json")
    json.dump(hist, open(p, "w"))
    rc, out = ctx.sh([hx, "replay", "--in", p, "--seed", "0", "--out", os.path.join(ctx.build, "replay_cases.v"),
                      "--stats", os.path.join(ctx.build, "replay_stats.json")])
    print(out[-6000:])
    ctx.corr(hx, ["replay", "--in", p], cases_name="replay.v")
    return ctx.finish(LEVEL)
