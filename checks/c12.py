"""C12: aggregator over independently built parts (each checks/<part>.py has run_part(ctx)); see DESIGN.md §7."""
from . import lib

LEVEL = "proof"
PARTS = ['c12a', 'c12b']


def run(ctx):
    lib.run_parts(ctx, PARTS)


def replay(ctx, obj):
    print(obj)
    run(ctx)
    return ctx.finish(LEVEL)
