"""C15 events / promise events / value notifier: three hand models (coq/C15_Events) + correspondence (DESIGN.md §7.15)."""
from . import lib

LEVEL = "proof"
DIRS = ["C15_Events"]


def run(ctx):
    thorough = ctx.tier == "thorough"
    hx = ctx.go_build("c15")
    ctx.proof_side(DIRS, "Properties/C15.v", extra_trusted=[
        "hand-written models of runtime/event, runtime/promise/event.go (Event1) and runtime/valuenotifier (Model*.v), tied to the code by the correspondence check only",
        "ds/orderedmap is modelled as used by event: a list of attached hooks in insertion order; a deleted element keeps its successor pointer (h_frozen)",
        "atomicity of sync/atomic Add/Swap/Load, of the critical sections under sync.(RW)Mutex and Go's select/close semantics are assumed (each is one model step)",
        "pooled hooks: the model records the submission to the worker pool; that the pool runs every submitted task once is C16",
    ])
    if thorough:
        for k in range(5):
            ctx.seed += 1000
            ctx.corr(hx, ["hist", "--nev", "600", "--npr", "300", "--nno", "400", "--nrl", "80", "--conc", "60", "--barrier", "8000", "--barrier-ms", "8000", "--fresh", "30000", "--fresh-ms", "6000"], cases_name="cases%d.v" % k)
        ctx.seed -= 5000
    else:
        ctx.corr(hx, ["hist", "--nev", "300", "--npr", "150", "--nno", "200", "--nrl", "40", "--conc", "30", "--barrier", "3000", "--barrier-ms", "4000", "--fresh", "12000", "--fresh-ms", "3000"])
    ctx.assumptions += [
        "WithMaxTriggerCount: the model's count test is ONE step that increments the counter and compares the new value with the limit (Model.start_trigger for an event, step_frame on FWalk _ _ _ (PAt n) for a hook), mirroring the single `triggerCount.Add(1) > maxTriggerCount` of options.go; C15_max_trigger_count_event / _hook / _quiescent are proved through invariants (EInv, HInv) preserved by exactly that step and do not hold for a load followed by a separate add. The sequential lockstep cannot observe whether the code's test-and-increment is one atomic operation: that is tested on the code by the barrier rounds (k = 2..4 persistent workers released into Trigger within nanoseconds of each other on fresh events/hooks with limits 1..3 at event level, hook level, both, and through LinkTo; exact-count oracle = min(n, #triggers)); this is a high-probability test, it needs >= 2 processors (skipped and counted in hist as barrier:skipped-single-processor otherwise) and is cut at a wall-clock cap on an oversubscribed machine (barrier:stopped-at-wall-limit)",
        "first use of a fresh object: the model has no set-up step - Model.attach (event.Hook, also the Hook inside linkTo) on an event without hooks is the same single atomic step as any other attach, Model.start_trigger / the walk on an empty event are the ordinary steps, ModelPromise's PAOnTrigger / PATrigger and ModelNotifier's NAListener / NANotify are one critical section each from the initial state on; the theorems quantify over all interleavings of these steps starting at the empty state, so they cover concurrent FIRST operations only as far as the code really has nothing that is initialised unsynchronised on first use (newEvent / NewEvent1 / valuenotifier.New allocate everything). Every lockstep and free-running family prepares its objects from one goroutine, so this is tested on the code by the fresh-object rounds (harness fresh.go): per round a brand-new event / promise.Event1 / promise.Event / Notifier and k = 2..4 workers released through the spin barrier into its first operations (all combinations of Hook, Trigger, LinkTo towards and from the fresh event; OnTrigger x Trigger; Listener x Notify), then a quiescent part judged with the property's predicate (every hook whose attaching call had returned before a Trigger began - logical clock for the racing triggers, all hooks for the quiescent one - is invoked exactly once; an unhooked one no more; exactly one current link target; promise callbacks exactly once with the winner's argument; Wait = success never without a Notify after the listener's creation); a high-probability test under the same limits as the barrier rounds (>= 2 processors, wall-clock cap: fresh:skipped-single-processor / fresh:stopped-at-wall-limit in hist)",
        "lockstep histories are sequential with re-entrant callbacks (operations performed inside a callback are steps of other threads for the model); real parallelism only in the free-running runs judged by the Go oracle (exact invocation counts)",
        "valuenotifier lockstep: Wait is held at the verif yield point (hook commit 1d19fe5) and released only when a select case is ready; interleavings inside Deregister are covered by the theorems, not by the correspondence",
        "pre-trigger functions (WithPreTriggerFunc) and the generated EventN arities other than Event1 are not modelled (same template code)",
        "LinkTo through a pooled target (Trigger of the linked event on a worker) is modelled as an independent later Trigger",
    ]


def replay(ctx, obj):
    print(obj)
    run(ctx)
    return ctx.finish(LEVEL)
