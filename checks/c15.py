"""C15 events / promise events / value notifier: three hand models (coq/C15_Events) + correspondence (DESIGN.md §7.15)."""
from . import lib

LEVEL = "proof"
DIRS = ["C15_Events"]


def run(ctx):
    thorough = ctx.tier == "thorough"
    hx = ctx.go_build("c15")
    ctx.proof_side(DIRS, "Properties/C15.v", extra_trusted=[
        "hand-written models of runtime/event, runtime/promise/event.go (Event1) and runtime/valuenotifier (Model*.v), tied to the code by the correspondence check only",
        "ds/orderedmap is modelled as used by event: a list of attached hooks in insertion order; a deleted element keeps its successor pointer (h_frozen)",
        "atomicity of sync/atomic Add/Swap/Load, of the critical sections under sync.(RW)Mutex and Go's select/close semantics are assumed (each is one model step)",
        "pooled hooks: the model records the submission to the worker pool; that the pool runs every submitted task once is C16",
    ])
    if thorough:
        for k in range(5):
            ctx.seed += 1000
            ctx.corr(hx, ["hist", "--nev", "600", "--npr", "300", "--nno", "400", "--conc", "60"], cases_name="cases%d.v" % k)
        ctx.seed -= 5000
    else:
        ctx.corr(hx, ["hist", "--nev", "300", "--npr", "150", "--nno", "200", "--conc", "30"])
    ctx.assumptions += [
        "lockstep histories are sequential with re-entrant callbacks (operations performed inside a callback are steps of other threads for the model); real parallelism only in the free-running runs judged by the Go oracle (exact invocation counts)",
        "valuenotifier lockstep: Wait is held at the verif yield point (hook commit 1d19fe5) and released only when a select case is ready; interleavings inside Deregister are covered by the theorems, not by the correspondence",
        "pre-trigger functions (WithPreTriggerFunc) and the generated EventN arities other than Event1 are not modelled (same template code)",
        "LinkTo through a pooled target (Trigger of the linked event on a worker) is modelled as an independent later Trigger",
    ]


def replay(ctx, obj):
    print(obj)
    run(ctx)
    return ctx.finish(LEVEL)
