"""C14 derived reactive values: hand models (coq/C14_Derived) + lockstep correspondence per derived kind +
free-running concurrent runs judged against the defining function (DESIGN.md §7.14)."""
from . import lib

LEVEL = "proof"
DIRS = ["C14_Derived"]


def run(ctx):
    thorough = ctx.tier == "thorough"
    hx = ctx.go_build("c14")
    ctx.proof_side(DIRS, "Properties/C14.v", extra_trusted=[
        "hand-written models of ds/reactive derived values (C14_Derived/Model.v: DV, SN, CT, SS, EV, WG, WGI, LK), tied to the code by the lockstep correspondence only",
        "lower layer taken as an interface (property C13): a subscriber receives every change exactly once, in order, synchronously inside the writer's call; one model step = one API call run to completion",
        "interleaving models (WaitGroup Add/Done atomic steps, DerivedVariable2 writer steps DVI, SortedSet lock skeleton) are hand abstractions of the Go code; the free-running runs and the directed schedules exercise the real code; DVI is additionally tied to the code by the forced schedules of `sched` (final state per schedule)",
        "hook a2d37bb (tag verif): WaitGroup.Add yields between the duplicate check and the counter correction",
        "re-entrant handlers of an EvictionState: stack-machine model EVR (ModelEVR.v; one step = one critical section of e.mutex or one Event.Trigger), a hand abstraction tied to the code by the lockstep replay of the re-entrant scenarios (case CEVR: LastEvictedSlot, triggered flag of every handed-out event and the handlers' log after every top-level call)",
    ])
    if thorough:
        for k in range(4):
            ctx.seed += 1000
            ctx.corr(hx, ["lock", "--n", "150", "--len", "40"], cases_name="cases%d.v" % k)
        ctx.seed -= 4000
        ctx.corr(hx, ["reent", "--n", "400"], cases_name="reent.v")
        ctx.corr(hx, ["conc", "--runs", "1500", "--fresh", "60000"], cases_name="conc.v", timeout=1500)
        ctx.corr(hx, ["sched", "--n", "4000"], cases_name="sched.v")
    else:
        ctx.corr(hx, ["lock", "--n", "70", "--len", "30"])
        ctx.corr(hx, ["reent", "--n", "40"], cases_name="reent.v", timeout=300)
        ctx.corr(hx, ["conc", "--runs", "150", "--fresh", "6000"], cases_name="conc.v")
        # sched holds writers at callback boundaries and has no global watchdog of its own: a hang is reported by the
        # harness timeout (normal run time 2 s)
        ctx.corr(hx, ["sched", "--n", "400"], cases_name="sched.v", timeout=240)
    ctx.assumptions += [
        "re-entrant callbacks (reent): one goroutine, one scripted callback per scenario; demanded are the (callback site, scripted call) pairs that complete on the unchanged code (table reBlocked in harness/cmd/c14/reent.go lists the pairs that park there: they are run once per run as observations); a parked goroutine is recognised by its wait state (sync.Mutex.Lock / sync.RWMutex.RLock ...) observed six times in a row, 20 s watchdog otherwise; for the derived kinds other than EvictionState re-entrant callbacks are judged in Go only (no Coq model of their locks)",
        "model assumption (interface of C13): callbacks of a Variable/Set run synchronously, once per change, in registration order",
        "guards of the theorems: the derived value is not written directly (it is itself a Variable/Set); an unsubscribe function of DerivedSet.InheritFrom is called at most once; compute functions do not depend on the current value; list arguments of set operations are duplicate-free (they are ds.Set values); EvictionState slots are modelled as unbounded N (Evict(max) of the slot type is a directed regression case, fix 2c4b512)",
        "concurrency: free-running runs with <= 4 goroutines and a quiescence barrier, compared with the defining function in Go; every run under a 20 s watchdog; directed schedules for the repaired D14b (blocking subscriber) and D14c (hook)",
        "get-or-create / first use: in the models a lookup-or-insert (the stored event of a slot in EV, the record of an element in SS, the pending entry in WG/WGI, the first subscription of an input or source in DV/SN/CT) is ONE atomic step of the calling operation, so two callers of the same new key always get the same object; the proofs do not cover an implementation (or helper package such as ds/shrinkingmap) in which that step can run twice. It is tied to the code by the barrier-released rounds of `conc --fresh` (fresh.go): 2-4 goroutines leave a spin barrier within nanoseconds into the FIRST operations on fresh objects (EvictionEvent of the same never-requested slot then Evict; InheritFrom / Add of the same new element / SubtractReactive / OnUpdate on never-subscribed sets; Monitor on a fresh counter; Add of the same new element to a fresh WaitGroup / SortedSet; NewDerivedVariable2 / InheritFrom over never-subscribed variables), judged at quiescence in Go only: the defining function of the kind, every handed-out event of a slot <= LastEvictedSlot triggered and its OnTrigger callbacks run exactly once, one event object per unevicted slot, exactly one of the racing Add calls of a new element returns true; sampled schedules (6000 rounds quick), not a proof; skipped and counted (fresh:skipped-single-processor) on a machine with fewer than 2 CPUs",
        "forced schedules (sched): one held writer per boundary x one or two further writers, each writer performs one Set; a writer counts as blocked when its goroutine is parked on a lock (runtime wait state); DerivedVariable3/4 and inheriting inputs are judged in Go only (the interleaving model DVI has two inputs)",
    ]


def replay(ctx, obj):
    print(obj)
    run(ctx)
    return ctx.finish(LEVEL)
