"""C20 daemon shutdown order: interleaving model (coq/C20_Daemon) + correspondence on scripted (hooked) and
free-running executions of app/daemon (DESIGN.md §7.20)."""
from . import lib

LEVEL = "proof"
DIRS = ["C20_Daemon"]


def run(ctx):
    thorough = ctx.tier == "thorough"
    hx = ctx.go_build("c20")
    ctx.proof_side(DIRS, "Properties/C20.v", extra_trusted=[
        "hand-written interleaving model of app/daemon/daemon.go (Model.v), tied to the code by the correspondence check only",
        "step granularity: one model step = one access to a shared atomic or one lock-protected run of plain-data accesses; "
        "the workers map and the shutdownOrderWorker slice are modelled as one association list",
        "sync.Once, sync.WaitGroup, sync.RWMutex and context cancellation are modelled by their documented behaviour",
    ])
    if thorough:
        for k in range(4):
            ctx.seed += 1000
            ctx.corr(hx, ["all", "--scripts", "600", "--free", "400", "--pkg", "150", "--pkgfree", "80"], cases_name="cases%d.v" % k)
        ctx.seed -= 4000
    else:
        ctx.corr(hx, ["all", "--scripts", "250", "--free", "120", "--pkg", "60", "--pkgfree", "24"])
    ctx.assumptions += [
        "each API call and each worker goroutine is one thread of the model; sequential client code is a special case of the free interleaving",
        "a worker body does not itself block on the daemon (e.g. it does not call ShutdownAndWait and wait for it)",
        "Run: only under the guard that no worker is started after Run took its snapshot of the wait groups (D20b is a known finding)",
        "cancelling the context of a worker whose body has already returned is not counted as a cancel",
        "the package-level functions (default instance) are driven in child processes of the harness, one scenario per process, "
        "and judged by the same reference simulator, history predicate and Coq model as a New() instance",
        "worker names: the scripts, the reference simulator and the Coq model use abstract name ids (names are only compared for equality); "
        "the concrete strings are a parameter of each case, taken in rotation from four palettes: ordinary short names; the empty "
        "name with names differing only in case / leading / trailing space; names that are prefixes of one another (with the empty "
        "name); 1000-byte names differing in the last byte / length / case (with the empty name) - coverage keys names:*",
        "scripted runs use <= 12 workers per daemon (sort.Slice is an insertion sort there; the order among equal shutdown orders is not compared)",
    ]


def replay(ctx, obj):
    print(obj)
    run(ctx)
    return ctx.finish(LEVEL)
