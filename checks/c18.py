"""C18 timed Queue / Executor / TaskExecutor: hand model (coq/C18_Timed) + lockstep scenarios, timing histories, a
hook-driven late-cancel test and the window family (worker held at every yield point of Poll / the TaskExecutor wrapper
x client operations completed meanwhile), the burst family (k pollers / workers parked on the empty queue, j >= 2 Adds back
to back, the woken consumer withheld) and the preload family (extreme instants / equal instants in different representations
queued with ordinary elements before polling starts) and the race family (2-4 goroutines free-running ExecuteAt / ExecuteAfter /
Cancel on the same 1-2 identifiers, judged by interleaving-independent accounting: the atomicity of the identifier-map steps
that the model assumes; thorough tier also under the race detector); DESIGN.md §7.18, notes/C18.md."""
from . import lib

LEVEL = "proof"
DIRS = ["C18_Timed"]


def run(ctx):
    thorough = ctx.tier == "thorough"
    hx = ctx.go_build("c18")
    ctx.proof_side(DIRS, "Properties/C18.v", extra_trusted=[
        "hand-written model of runtime/timed queue.go/executor.go/taskexecutor.go over container/heap (Model.v), tied to the code by the correspondence check only",
        "Go select semantics as modelled: a goroutine parked in a select is woken by the first channel that becomes ready; a select entered with several ready channels picks any of them",
        "QueueElement.rawElem.Index() is modelled as the position of the element in the heap array (the index field is maintained by generalheap.Swap/Push/Pop)",
        "yield hook timed.VerifYield (build tag verif): in Queue.Poll between pop and select, after the select on the ctx / ignore-timeouts / timer (outer and inner) paths before the value is returned, and in the TaskExecutor wrapper before it takes its mutex and before the callback",
    ])
    if thorough:
        for k in range(4):
            ctx.seed += 1000
            ctx.corr(hx, ["run", "--scripts", "500", "--len", "16", "--hists", "256", "--grid", "50", "--hook", "2000", "--windows", "12", "--burst", "6", "--preload", "150", "--race", "10"],
                     cases_name="cases%d.v" % k)
        ctx.seed -= 4000
        # the race family once more under the race detector: the identifier map and the queue are only touched under their mutexes
        # (a report makes the harness exit with status 66 = harness-failure VIOLATION)
        try:
            hxr = ctx.go_build("c18", race=True)
            ctx.corr(hxr, ["run", "--only", "race", "--race", "4", "--raceops", "200"], cases_name="cases_race.v")
            ctx.assumptions.append("race-detector build of the harness ran the race family (concurrent ExecuteAt/ExecuteAfter/Cancel on shared identifiers, workers running) without a report")
        except RuntimeError as ex:
            ctx.log("race build unavailable: %s" % ex)
            ctx.assumptions.append("race-detector build not available on this machine: data-race freedom of TaskExecutor unchecked")
    else:
        ctx.corr(hx, ["run", "--scripts", "200", "--len", "12", "--hists", "96", "--grid", "50", "--hook", "600", "--windows", "6", "--burst", "3", "--preload", "60", "--race", "4"])
    ctx.assumptions += [
        "ATOMICITY: TaskExecutor.ExecuteAt/ExecuteAfter(id), Cancel(id) and the wrapper's clean-up are single steps of the model (add_step, tcancel_step, the WDeliv step) because the code holds queuedElementsMutex across each whole read-modify-write of queuedElements and the queue; this is tied to the code by the free-running race family (unique token per task; per identifier ran + Cancel=true + pending <= scheduled and >= 1, exactly-one accounting per round of one task vs. concurrent Cancels, Size() <= #identifiers at every sampled instant, Size() = 0 after Cancel of every identifier) and, in the thorough tier, the race detector - not by a proof about sync.Mutex; C18_refuted_split_cancel / C18_refuted_split_cancel_twice show that every TaskExecutor clause fails when Cancel is cut into look-up / element.Cancel() / Delete with another call in between",
        "Queue.Add's shutdown test and its push are one atomic step of the model (the code tests IsShutdown before taking heapMutex; an Add racing with Shutdown was not reproduced in 3000 trials)",
        "PanicOnModificationsAfterShutdown is not a parameter of the model: a modification refused after Shutdown (Add / ExecuteAt / ExecuteAfter returning nil, a further Shutdown) is the same model step with or without the flag (no change of the queue; TaskExecutor.ExecuteAt still cancels the identifier's previous task first, as the code does); the outcome class nil / panic is judged Go-side (panics exactly for Add/ExecuteAt/ExecuteAfter/Shutdown after a Shutdown that had the flag; every client operation of the lockstep scripts and the timing plans runs under recover + watchdog) and the usual delivery oracle / model comparison continues after the recovered panic (lockstep TaskExecutor scripts, timing plans on Queue / Executor / TaskExecutor with elements pending at the Shutdown); a further Shutdown must not adopt its own flags",
        "DontWaitForShutdown/shutdownWG and Poll(waitIfEmpty=false) are outside the model; workers are Poll(true) loops as in Executor.startBackgroundWorkers; the first Shutdown always carries DontWaitForShutdown (the wait is exercised by a second, flag-less Shutdown() that must return once every pending element had its time - not possible with the panic flag, where the run polls the deliveries instead)",
        "timer accuracy and scheduler latency are runtime behaviour: the timing runs judge recorded stamps with a guard band of one grid step (50 ms); the timer is modelled as 'fires at or after its time'",
        "C18_task_executor clauses 2-5 are for schedules passing te_guard: no Add whose size bound drops an element, no effective Shutdown with CancelPendingElements, no Cancel() through the returned *ScheduledTask of a task the map still tracks (exactly the patterns of finding taskexecutor-stale-identifier, witnesses C18_refuted_stale_identifier); clause 1 (a replaced/cancelled task never starts) is unguarded",
        "C18_eventually_once_blocked: fairB is a premise on the schedule (a worker whose callback never returns is never stepped again, every other worker is scheduled infinitely often, clock unbounded); the burst family parks the pollers by reading the waiter count of sync.Cond (notifyList.wait - notify) through reflection",
        "scheduled times are abstract instants (N) in the model; the harness maps time.Time values to instants order-preservingly (extreme instants by rank, ordinary ones in microseconds), so ordering by instant across representations (monotonic reading stripped, other Location, rebuilt from Unix seconds) and outside 1678..2262 is tied to the code by the correspondence and the Go-side oracle only; the min-heap order itself is transcribed (container/heap up/down), not proved to be sorted",
        "C18_eventually_once_fair: fairness is a premise on the schedule (only ticks and worker steps, every worker scheduled infinitely often, clock unbounded); real scheduler fairness and timer firing are runtime behaviour",
    ]


def replay(ctx, obj):
    print(obj)
    run(ctx)
    return ctx.finish(LEVEL)
