"""C02 part: serix Decode on arbitrary bytes - never panics, consumed <= supplied, no unbounded iteration/allocation
(DESIGN.md 7.2). Model coq/C01_Serix, harness cmd/c01bin sub-command c02."""
from . import lib
from .c01bin import DIRS, TRUSTED

LEVEL = "proof"


def run_part(ctx):
    thorough = ctx.tier == "thorough"
    hx = ctx.go_build("c01bin")
    ctx.proof_side(DIRS, "Properties/C02Serix.v", extra_trusted=TRUSTED)
    if thorough:
        for k in range(4):
            ctx.seed += 1000
            ctx.corr(hx, ["c02", "--types", "120", "--vals", "2"], cases_name="c02serix_cases%d.v" % k)
        ctx.seed -= 4000
    else:
        ctx.corr(hx, ["c02", "--types", "40", "--vals", "2"], cases_name="c02serix_cases.v")
    ctx.assumptions += [
        "c02serix: allocation and time are measured on the Go side (runtime.MemStats.TotalAlloc delta <= 64 KiB + 64*len(input), call < 2 s), not proved; the theorems bound the model's consumed count and iteration fuel",
        "c02serix: sequences whose elements can be empty on the wire iterate length-prefix times (finding D02d); excluded from the iteration bound by the guard no_zero_size",
    ]
