"""C01 part c01json: serix JSON/map form round trip (coq/C01_SerixJson; DESIGN.md §7.1 jencode/jdecode)."""
from . import lib

DIRS = ["C01_SerixJson"]
TRUSTED = [
    "hand-written model of serix/map_encode.go + map_decode.go (C01_SerixJson/Model.v), tied to the code by the correspondence check only",
    "encoding/json (text <-> map[string]any/[]any/float64/string tree) is not modelled: the model starts from the parsed tree; strings are assumed valid UTF-8",
    "float64 -> int8..uint32 conversions of out-of-range JSON numbers are those of gc/amd64 (CVTTSD2SL/SQ), observed by the harness",
]


def run_part(ctx):
    thorough = ctx.tier == "thorough"
    hx = ctx.go_build("c01json")
    ctx.proof_side(DIRS, "Properties/C01Json.v", extra_trusted=TRUSTED)
    if thorough:
        for k in range(4):
            ctx.seed += 1000
            ctx.corr(hx, ["enc", "--n", "500"], cases_name="c01json_enc%d.v" % k)
        ctx.seed -= 4000
    else:
        ctx.corr(hx, ["enc", "--n", "170"], cases_name="c01json_enc.v")
    ctx.assumptions += [
        "c01json: guard has_type: an omitempty field may hold its empty value (zero time.Time, nil pointer) whatever it is; integers within their width, *big.Int in [0, 2^256), time.Time within [0, MaxInt64] unix ns (TimeToUint64 clamps outside, by design), map keys pairwise distinct, non-optional pointers/interfaces non-nil",
        "c01json: guard wf_schema: field keys (incl. those of inlined/embedded structs, which live in the enclosing object) pairwise distinct and != \"type\" when the struct has an object code; 'omitempty' not on maps/arrays/by-value structs; inlined fields are structs; map keys string/int64/uint64/time/[n]byte; 'optional' only on pointer/interface/*big.Int fields; interface alternatives are value structs with distinct codes",
        "c01json: nil and empty slices/maps are identified (JSONDecode always yields empty non-nil ones); decoded Go maps are compared up to entry order; a Go map is presented to the model as its entry list ordered by encoded key (the order JSONEncode must emit; determinism itself is judged by the Go oracle: 4 encodings of each value give identical bytes)",
        "c01json: modelled since round 2b: omitempty (not on maps, arrays, by-value structs), inlined struct fields and embedded structs, [n]byte with registered object code (by value / pointer) and *[n]byte; not modelled: float32/64 fields, inlined/embedded interfaces, interface alternatives other than value structs, custom (De)SerializableJSON types, validation rules (minLen/maxLen/array rules/validators); WithValidation() without rules is exercised on 1/3 of the cases",
    ]
