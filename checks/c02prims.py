"""C02 part c02prims: Deserializer primitives, stream Read helpers, typeutils.FromBytes, serializableorderedmap decode
are total and resource-bounded (model coq/C02_Prims, harness cmd/c02prims sub-command prims). DESIGN.md §7.2."""
from . import lib

LEVEL = "proof"
DIRS = ["C02_Prims"]


def run_part(ctx):
    thorough = ctx.tier == "thorough"
    hx = ctx.go_build("c02prims")
    ctx.proof_side(DIRS, "Properties/C02Prims.v", extra_trusted=[
        "hand-written model of serializer.Deserializer primitives, serializer/stream/read.go, typeutils/from_bytes.go and the "
        "serializableorderedmap decode loop (C02_Prims/Model.v, Stream.v), tied to the code by the correspondence check only",
        "allocation is measured (runtime.MemStats.TotalAlloc per call) and compared with 64 KiB + 64 x the model's abstract cost "
        "(stream reads: between cost - 4 KiB (cost >= 1 MiB) and 64 KiB + 64 x min(cost, 4096) + 1.125 x cost; Go side: 64 KiB + "
        "64 x min(len, 4096) + 4.5 x len(input) + min(claimed length, 1 MiB)); "
        "the theorems bound the abstract cost (make sizes + loop iterations), not Go's allocator",
        "serix.Decode of a fixed-width integer inside SerializableOrderedMap.Decode is modelled as Deserializer.ReadNum",
    ])
    if thorough:
        for k in range(4):
            ctx.seed += 1000
            ctx.corr(hx, ["prims", "--n", "400"], cases_name="prims_cases%d.v" % k)
        ctx.seed -= 4000
    else:
        ctx.corr(hx, ["prims", "--n", "300"], cases_name="prims_cases.v")
    ctx.assumptions += [
        "c02prims: length-prefix type and validation mode are configuration, not input: an unknown SeriLengthPrefixType panics by design (modelled as Panic, excluded by the guard lpt <> LBad)",
        "c02prims: item deserializers / object callbacks honour their contract (consumed <= len(input), no panic); iteration and cost bounds need every successful item to consume >= 1 byte (otherwise finding D02d-zero-size-items)",
        "c02prims: readers are scripts of Give n / Half / Fault events followed by bytes.Reader behaviour; a reader returning (0, nil) forever is outside the model",
    ]
