"""C03 part: serix binary codec - wire layout = reference encoder; validated decoding accepts only canonical bytes
(DESIGN.md 7.3). Model coq/C01_Serix, harness cmd/c01bin sub-command c03."""
from . import lib
from .c01bin import DIRS, TRUSTED

LEVEL = "proof"


def run_part(ctx):
    thorough = ctx.tier == "thorough"
    hx = ctx.go_build("c01bin")
    ctx.proof_side(DIRS, "Properties/C03Bin.v", extra_trusted=TRUSTED)
    if thorough:
        for k in range(4):
            ctx.seed += 1000
            ctx.corr(hx, ["c03", "--types", "160", "--vals", "3"], cases_name="c03bin_cases%d.v" % k)
        ctx.seed -= 4000
    else:
        ctx.corr(hx, ["c03", "--types", "70", "--vals", "2"], cases_name="c03bin_cases.v")
    ctx.assumptions += [
        "c03bin: the model's encode IS the reference encoder (written from the documented layout, pinned by the C03_layout_* lemmas); the reverse direction excludes time stamps above MaxInt64 ns (documented saturation)",
    ]
