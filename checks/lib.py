"""Shared driver code for /verif/bin/check (see DESIGN.md §2, §4)."""
import fcntl, glob, hashlib, json, os, re, shutil, subprocess, sys, time

VERIF = os.path.dirname(os.path.dirname(os.path.abspath(__file__)))
REPO = os.environ.get("VERIF_REPO", "/repo")
COQ = os.path.join(VERIF, "coq")
GOENV = dict(GOFLAGS="-mod=mod", GOPROXY="off", GOSUMDB="off", GOTOOLCHAIN="local", CGO_ENABLED="0")
HIVE_MODS = ["ads", "app", "constraints", "core", "crypto", "ds", "ierrors", "kvstore", "lo", "log",
             "runtime", "serializer", "stringify", "web"]
AUDIT_RE = re.compile(r"\b(Admitted|admit|Axiom|Axioms|Parameter|Parameters|Conjecture|Abort All|Unset Guard Checking|"
                      r"bypass_check|Unset Positivity Checking|Unset Universe Checking|Admit Obligations|type-in-type|impredicative-set)\b")
STMT_RE = re.compile(r"^\s*(Theorem|Lemma|Corollary|Proposition|Fact|Remark|Example)\s+([A-Za-z0-9_']+)", re.M)


class Violation(Exception):
    pass


class Ctx:
    def __init__(self, pid, tier, seed):
        self.id, self.tier, self.seed = pid, tier, seed
        self.t0 = time.time()
        self.alt = os.path.realpath(REPO) != "/repo"     # scratch-worktree mode: nothing under evidence/ or replays/ is touched
        self.build = os.path.join(VERIF, "build", pid + ("-alt-" + hashlib.md5(os.path.realpath(REPO).encode()).hexdigest()[:6] if self.alt else ""))
        os.makedirs(self.build, exist_ok=True)
        os.makedirs(os.path.join(VERIF, "build", "bin"), exist_ok=True)
        os.makedirs(os.path.join(VERIF, "replays"), exist_ok=True)
        os.makedirs(os.path.join(VERIF, "evidence"), exist_ok=True)
        self.violations = []      # (replay_path, suffix)
        self.known_hits = []      # signatures reproduced
        self.cov = {"evaluations": 0, "distinct_nontrivial": 0, "rule": "", "samples": [], "hist": {},
                    "obligations": 0, "discharged": 0, "checker_cmd": "", "trusted_base": []}
        self.assumptions = []
        self.log_lines = []

    # ---------- process helpers ----------
    def log(self, *a):
        s = " ".join(str(x) for x in a)
        self.log_lines.append(s)
        print("[%s %.1fs] %s" % (self.id, time.time() - self.t0, s), flush=True)

    def sh(self, cmd, timeout=600, cwd=None, env=None, stdin=None):
        e = dict(os.environ)
        e.update(GOENV)
        if env:
            e.update(env)
        try:
            p = subprocess.run(cmd, cwd=cwd or VERIF, env=e, stdout=subprocess.PIPE, stderr=subprocess.STDOUT,
                               timeout=timeout, shell=isinstance(cmd, str), input=stdin)
            return p.returncode, p.stdout.decode("utf-8", "replace")
        except subprocess.TimeoutExpired as ex:
            out = (ex.stdout or b"").decode("utf-8", "replace")
            return 124, out + "\n[timeout after %ds]" % timeout

    # ---------- Go ----------
    def go_sum(self):
        """go.sum of the harness = union of the go.sum files of /repo (hive.go modules are replaced by /repo/<mod>)."""
        lines = set()
        for f in glob.glob(os.path.join(REPO, "*", "go.sum")):
            lines.update(open(f).read().splitlines())
        path = os.path.join(VERIF, "harness", "go.sum")
        new = "\n".join(sorted(l for l in lines if l.strip())) + "\n"
        with open(os.path.join(VERIF, "build", ".gosum.lock"), "w") as lk:
            fcntl.flock(lk, fcntl.LOCK_EX)
            old = open(path).read() if os.path.exists(path) else ""
            if not set(new.splitlines()) <= set(old.splitlines()):
                open(path, "w").write(new)

    def go_build(self, name, race=False, tags="verif"):
        """Builds /verif/harness/cmd/<name> against /repo's working tree. Returns the binary path."""
        self.go_sum()
        out = os.path.join(VERIF, "build", "bin", "hx-%s%s" % (name, "-race" if race else ""))
        cmd = ["go", "build", "-tags", tags, "-o", out]
        env = {}
        if os.path.realpath(REPO) != "/repo":
            # scratch-worktree mode (VERIF_REPO=/tmp/wt): same harness sources, replace directives rewritten to that tree
            alt = os.path.join(self.build, "alt.mod")
            mod = open(os.path.join(VERIF, "harness", "go.mod")).read().replace("=> /repo/", "=> %s/" % os.path.realpath(REPO))
            open(alt, "w").write(mod)
            shutil.copy(os.path.join(VERIF, "harness", "go.sum"), os.path.join(self.build, "alt.sum"))
            out = os.path.join(self.build, "hx-%s-alt%s" % (name, "-race" if race else ""))
            cmd = ["go", "build", "-modfile=" + alt, "-tags", tags, "-o", out]
        if race:
            cmd.append("-race")
            env["CGO_ENABLED"] = "1"
        cmd.append("./cmd/" + name)
        rc, o = self.sh(cmd, cwd=os.path.join(VERIF, "harness"), timeout=900, env=env)
        if rc != 0:
            self.log("go build failed:\n" + o[-4000:])
            raise RuntimeError("harness build failed for %s (does /repo still compile?)" % name)
        return out

    def build_tool(self, name):
        out = os.path.join(VERIF, "build", "bin", name)
        rc, o = self.sh(["go", "build", "-o", out, "./" + name], cwd=os.path.join(VERIF, "translator"), timeout=600)
        if rc != 0:
            raise RuntimeError("tool build failed: " + o[-2000:])
        return out

    # ---------- Coq ----------
    def coq_make(self, targets=None, timeout=3000):
        """Full .vo build (no -vos) of the given targets of /verif/coq (everything when None); no-op when fresh.
        Serialised across concurrent checks by bin/coqmake.sh (flock)."""
        rc, o = self.sh(["bash", "bin/coqmake.sh"] + list(targets or []), timeout=timeout)
        return rc == 0, o

    def vo_targets(self, dirs, prop_v=None):
        t = []
        for d in dirs:
            p = os.path.join(COQ, d)
            files = sorted(glob.glob(os.path.join(p, "*.v"))) if os.path.isdir(p) else [p]
            t += [os.path.relpath(f, COQ) + "o" for f in files]
        if prop_v:
            t.append(prop_v + "o")
        return t

    def coqc(self, path, timeout=600, extra_q=None, cwd=None):
        """Compiles one .v file (full check) against the Verif library; extra_q = [(dir, logical)] overlays."""
        cmd = ["coqc", "-w", "-notation-overridden,-deprecated-hint-without-locality,-deprecated-instance-without-locality"]
        for d, l in (extra_q or []):
            cmd += ["-Q", d, l]
        if not extra_q or all(l != "Verif" for _, l in extra_q):
            cmd += ["-Q", COQ, "Verif"]
        cmd.append(path)
        return self.sh(cmd, timeout=timeout, cwd=cwd or os.path.dirname(path))

    def eval_cases(self, cases_v, timeout=900, extra_q=None):
        """Compiles a harness-written cases file whose last command prints `M = <list nat>`; returns the mismatching indices."""
        rc, out = self.coqc(cases_v, timeout=timeout, extra_q=extra_q)
        if rc != 0:
            return None, out
        m = re.search(r"\bM\s*=\s*(\[[^\]]*\]|nil)", out)
        if not m:
            return None, out
        body = m.group(1)
        if body == "nil" or body == "[]":
            return [], out
        idx = [int(x) for x in re.findall(r"\d+", body)]
        return idx, out

    def audit(self, dirs):
        """Greps the Coq sources of this property for anything that would declare an axiom or disable a kernel check."""
        bad = []
        for d in dirs:
            for f in sorted(glob.glob(os.path.join(COQ, d, "*.v")) if os.path.isdir(os.path.join(COQ, d)) else [os.path.join(COQ, d)]):
                src = open(f).read()
                src_nc = strip_comments(src)
                for i, line in enumerate(src_nc.splitlines(), 1):
                    if AUDIT_RE.search(line):
                        bad.append("%s:%d: %s" % (os.path.relpath(f, VERIF), i, line.strip()))
                    if re.match(r"^\s*(Variable|Variables|Hypothesis|Hypotheses|Context)\b", line) and not in_section(src_nc, i):
                        bad.append("%s:%d: top-level %s" % (os.path.relpath(f, VERIF), i, line.strip()))
        return bad

    def obligations(self, dirs):
        """Counts theorem-like statements and how many are closed by Qed/Defined in the given model directories."""
        n = q = 0
        names = []
        for d in dirs:
            files = sorted(glob.glob(os.path.join(COQ, d, "*.v"))) if os.path.isdir(os.path.join(COQ, d)) else [os.path.join(COQ, d)]
            for f in files:
                src = strip_comments(open(f).read())
                st = STMT_RE.findall(src)
                n += len(st)
                names += [x[1] for x in st]
                q += len(re.findall(r"\b(Qed|Defined)\s*\.", src))
        return n, min(q, n), names

    def assumptions_of(self, prop_v):
        """Recompiles Properties/<id>.v and parses its Print Assumptions output."""
        rc, out = self.coqc(os.path.join(COQ, prop_v), timeout=600, cwd=COQ)
        if rc != 0:
            return None, out
        closed = len(re.findall(r"Closed under the global context", out))
        axioms = sorted(set(re.findall(r"^([A-Za-z_][\w\.']*)\s*:", out, re.M)))
        return {"closed": closed, "axioms": axioms}, out

    # ---------- findings / reporting ----------
    def known_findings(self):
        res = []
        path = os.path.join(VERIF, "KNOWN_FINDINGS.txt")
        if os.path.exists(path):
            for line in open(path):
                line = line.strip()
                m = re.match(r"finding:\s*property=(\S+)\s+sig=(\S+)\s*(.*)", line)
                if m and m.group(1) == self.id:
                    res.append((m.group(2), m.group(3)))
        return res

    def replay_path(self, tag):
        return os.path.join(self.build if self.alt else os.path.join(VERIF, "replays"), "%s_%s_%s.json" % (self.id, tag, self.seed))

    def violation(self, replay_obj, tag="v", no_input=False, sig=None):
        """Registers a violation unless its signature is a listed known finding."""
        if sig is not None:
            for ksig, what in self.known_findings():
                if ksig == sig:
                    if sig not in self.known_hits:
                        self.known_hits.append(sig)
                        print("KNOWN-FINDING: property=%s %s %s" % (self.id, sig, what), flush=True)
                    return
        path = self.replay_path(tag + str(len(self.violations)))
        json.dump(replay_obj, open(path, "w"), indent=1, default=str)
        self.violations.append((path, " no-failing-input-found" if no_input else ""))

    def finish(self, level="proof"):
        wall = time.time() - self.t0
        cov = self.cov
        cov["samples"] = cov["samples"][:8] if cov["samples"] else [{"note": "no sample recorded"}]
        ev = {"property_id": self.id, "tier": self.tier, "seed": self.seed, "level": level, "coverage": cov,
              "assumptions": self.assumptions, "wall_s": round(wall, 2), "violations": len(self.violations),
              "known_findings_reproduced": self.known_hits}
        evdir = os.path.join(VERIF, "evidence") if os.path.realpath(REPO) == "/repo" else self.build
        json.dump(ev, open(os.path.join(evdir, self.id + ".json"), "w"), indent=1, default=str)
        for path, suffix in self.violations:
            print("VIOLATION property=%s replay=%s%s" % (self.id, path, suffix), flush=True)
        self.log("done: %d evaluations, %d distinct non-trivial, %d/%d obligations, %d violation(s), %.1fs" % (
            cov["evaluations"], cov["distinct_nontrivial"], cov["discharged"], cov["obligations"], len(self.violations), wall))
        return 1 if self.violations else 0

    # ---------- the common tie-H flow ----------
    def merge_stats(self, stats):
        c = self.cov
        c["evaluations"] += stats.get("evaluations", 0)
        c["distinct_nontrivial"] += stats.get("distinct_nontrivial", 0)
        if stats.get("rule") and stats["rule"] not in c["rule"]:
            c["rule"] = (c["rule"] + " | " if c["rule"] else "") + stats["rule"]
        for k, v in (stats.get("hist") or {}).items():
            c["hist"][k] = c["hist"].get(k, 0) + v
        for s in (stats.get("samples") or []):
            if len(c["samples"]) < 8:
                c["samples"].append(s)
        for k, v in (stats.get("extra") or {}).items():
            c.setdefault("extra", {})[k] = v

    def proof_side(self, dirs, prop_v, extra_trusted=()):
        """make (no-op when fresh) + audit + obligations + Print Assumptions. Returns False if the proof side is broken."""
        ok, out = self.coq_make(self.vo_targets(dirs, prop_v))
        if not ok:
            self.log("coq make failed:\n" + out[-3000:])
            self.violation({"kind": "proof-broken", "what": "make of /verif/coq failed", "log_tail": out[-3000:]},
                           tag="proof", no_input=True)
            return False
        bad = self.audit(list(dirs) + [prop_v])
        if bad:
            self.violation({"kind": "audit", "hits": bad}, tag="audit", no_input=True)
            return False
        n, q, names = self.obligations(list(dirs) + [prop_v])
        self.cov["obligations"] += n          # accumulates when a check is made of several parts
        self.cov["discharged"] += q
        a, out = self.assumptions_of(prop_v)
        if a is None:
            self.violation({"kind": "proof-broken", "what": prop_v + " does not compile", "log_tail": out[-3000:]},
                           tag="proof", no_input=True)
            return False
        self.cov["checker_cmd"] = "make -C /verif/coq -j16 (coqc 8.16.1, full .vo) ; coqc Properties/<file>.v (Print Assumptions)"
        tb = self.cov["trusted_base"] or ["Coq 8.16.1 kernel incl. vm_compute (no native_compute)"]
        tb.append("%s: Print Assumptions: %d theorem(s) closed under the global context; axioms: %s" % (prop_v, a["closed"], a["axioms"] or "none"))
        tb += [t for t in extra_trusted if t not in tb]
        self.cov["trusted_base"] = tb
        self.cov["property_theorems"] = self.cov.get("property_theorems", []) + [x for x in names if re.match(r"C\d\d_", x)]
        if self.tier == "thorough" and os.environ.get("VERIF_NO_COQCHK") != "1":
            self.coqchk(prop_v)
        return True

    def coqchk(self, prop_v):
        """Thorough tier: the independent checker re-checks the compiled statement file and everything it depends on."""
        logical = "Verif." + prop_v[:-2].replace("/", ".")
        rc, out = self.sh(["coqchk", "-silent", "-o", "-Q", COQ, "Verif", logical], timeout=3000, cwd=COQ)
        m = re.search(r"\* Axioms:(.*?)\n\s*\n\* Constants", out, re.S)
        ax = " ".join(m.group(1).split()) if m else "?"
        self.cov.setdefault("coqchk", []).append({"library": logical, "rc": rc, "axioms": ax})
        self.cov["trusted_base"].append("coqchk -o %s: rc=%d, axioms: %s" % (logical, rc, ax))
        if rc != 0:
            self.violation({"kind": "proof-broken", "what": "coqchk rejected " + logical, "log_tail": out[-3000:]}, tag="coqchk", no_input=True)

    def corr(self, harness_bin, args, cases_name="cases.v", timeout=900, describe=None):
        """Runs the harness (implementation side; writes cases.v + stats.json), evaluates the model on the same cases in Coq."""
        cases = os.path.join(self.build, cases_name)
        stats_p = os.path.join(self.build, cases_name.replace(".v", "") + "_stats.json")
        for f in (cases, stats_p):
            if os.path.exists(f):
                os.remove(f)
        rc, out = self.sh([harness_bin] + args + ["--seed", str(self.seed), "--out", cases, "--stats", stats_p], timeout=timeout)
        if rc != 0 or not os.path.exists(stats_p):
            self.log("harness failed rc=%d:\n%s" % (rc, out[-3000:]))
            self.violation({"kind": "harness-failure", "cmd": [harness_bin] + args, "rc": rc, "log_tail": out[-3000:],
                            "what": "the implementation-side harness crashed or hung; correspondence could not be evaluated"},
                           tag="harness", no_input=True)
            return None
        stats = json.load(open(stats_p))
        self.merge_stats(stats)
        for sig in stats.get("known") or []:
            hit = False
            for ksig, what in self.known_findings():
                if ksig == sig:
                    hit = True
                    if sig not in self.known_hits:
                        self.known_hits.append(sig)
                        print("KNOWN-FINDING: property=%s %s %s" % (self.id, sig, what), flush=True)
            if not hit:
                self.violation({"kind": "unlisted-finding", "sig": sig}, tag="unlisted")
        for f in (stats.get("oracle_failures") or [])[:5]:
            sig = f.get("sig") if isinstance(f, dict) else None
            self.violation({"kind": "implementation-violates-property", "case": f, "seed": self.seed,
                            "replay": "bin/check %s --replay <this file>" % self.id}, tag="impl", sig=sig)
        if os.path.exists(cases):
            idx, cout = self.eval_cases(cases, timeout=timeout)
            if idx is None:
                self.log("coqc on cases failed:\n" + cout[-3000:])
                self.violation({"kind": "correspondence-broken", "what": "cases file did not evaluate", "log_tail": cout[-3000:]},
                               tag="corr", no_input=True)
            elif idx:
                ci = stats.get("case_index") or []
                already = bool(stats.get("oracle_failures"))
                for i in idx[:5]:
                    case = ci[i] if i < len(ci) else {"index": i}
                    self.violation({"kind": "model-implementation-mismatch", "index": i, "case": case, "seed": self.seed,
                                    "correspondence": "Verif.%s Corr.mismatches" % self.id,
                                    "note": "model and implementation disagree on this case; the Go-side oracle %s" %
                                            ("also reports a property failure" if already else "found no property failure")},
                                   tag="corr", no_input=not already)
            self.cov["coq_cases_evaluated"] = self.cov.get("coq_cases_evaluated", 0) + len(stats.get("case_index") or []) or stats.get("evaluations", 0)
        return stats


def strip_comments(src):
    out, depth, i = [], 0, 0
    while i < len(src):
        if src.startswith("(*", i):
            depth += 1
            i += 2
        elif src.startswith("*)", i) and depth > 0:
            depth -= 1
            i += 2
        else:
            if depth == 0:
                out.append(src[i])
            elif src[i] == "\n":
                out.append("\n")
            i += 1
    return "".join(out)


def in_section(src, lineno):
    depth = 0
    for i, line in enumerate(src.splitlines(), 1):
        if i >= lineno:
            break
        if re.match(r"^\s*(Section|Module Type|Module)\s+\w+", line) and ":=" not in line:
            depth += 1
        elif re.match(r"^\s*End\s+\w+", line):
            depth -= 1
    return depth > 0


def run_parts(ctx, parts):
    """A property whose check is made of several independently built parts: checks/<part>.py with run_part(ctx).
    A part that is not there yet is skipped (and named in the evidence); a part that raises is a broken check."""
    import importlib
    done, missing = [], []
    for p in parts:
        try:
            mod = importlib.import_module("checks." + p)
        except ModuleNotFoundError as ex:
            if ex.name == "checks." + p:
                missing.append(p)
                continue
            raise
        ctx.log("part " + p)
        mod.run_part(ctx)
        done.append(p)
    ctx.cov["parts_run"] = done
    if missing:
        ctx.cov["parts_missing"] = missing
    if not done:
        raise RuntimeError("no part of this check exists yet")
