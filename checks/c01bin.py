"""C01 part: serix binary codec - round trip + determinism of serix Encode/Decode (DESIGN.md 7.1).
Model coq/C01_Serix (shared with c03bin / c02serix), harness cmd/c01bin sub-command c01."""
from . import lib

LEVEL = "proof"
DIRS = ["C01_Serix"]
TRUSTED = [
    "hand-written model of serializer/serix encode.go/decode.go and the Serializer/Deserializer calls they make (C01_Serix/Model.v), tied to the code by the correspondence check only",
    "Go type and Coq schema are produced from one generated tree (reflect.StructOf/SliceOf/ArrayOf/MapOf/PointerTo + serix tags, fresh serix.API per case); effective settings (tag over registry) are computed by the harness, not by TypeSettings.merge",
    "custom Serializable/Deserializable types, syntactic validators and the JSON/map form are not in this model",
]


def run_part(ctx):
    thorough = ctx.tier == "thorough"
    hx = ctx.go_build("c01bin")
    ctx.proof_side(DIRS, "Properties/C01Bin.v", extra_trusted=TRUSTED)
    if thorough:
        for k in range(4):
            ctx.seed += 1000
            ctx.corr(hx, ["c01", "--types", "400", "--vals", "4"], cases_name="c01bin_cases%d.v" % k)
        ctx.seed -= 4000
    else:
        ctx.corr(hx, ["c01", "--types", "220", "--vals", "3"], cases_name="c01bin_cases.v")
    ctx.assumptions += [
        "c01bin: theorems are for the modelled fragment (bool, ints/float bit patterns, string/[]byte, [N]byte, *big.Int, time.Time, pointers, structs with plain/optional/embedded fields and type codes, slices/arrays/maps with length prefix uint8..uint64 and array rules, interfaces with uint8/uint32 type denotation)",
        "c01bin: guards of C01_roundtrip: schema without zero-size sequence elements / optional targets, total encoding shorter than 2^32 bytes (optional marker is a uint32), time stamps are compared after the documented clamping to [0, MaxInt64] ns",
    ]
