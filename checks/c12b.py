"""C12 part b: BytesFilter, Walker, TimeHeap, IndexedStorage, OnChangeMap, SubscriptionManager (DESIGN.md §7.12).
Hand models in coq/C12b_Containers + lockstep histories on the real containers."""
from . import lib

LEVEL = "proof"
DIRS = ["C12b_Containers"]


def run_part(ctx):
    thorough = ctx.tier == "thorough"
    hx = ctx.go_build("c12b")
    ctx.proof_side(DIRS, "Properties/C12b.v", extra_trusted=[
        "C12b: hand-written models of bytesfilter.go, walker.go, timeheap.go, indexedstorage.go, onchangemap.go, subscription_manager.go, tied to the code by the correspondence check only",
        "C12b: ShrinkingMap/OrderedMap used by these containers are modelled as plain maps/sets (ShrinkingMap = plain map is part C12a); container/heap is modelled by its contract (Pop returns a least element)",
        "C12b: TimeHeap time is abstract (one clock reading per call); the harness measures the real clock around every call and keeps windows >= 15 ms away from every entry age",
    ])
    if thorough:
        for k in range(4):
            ctx.seed += 1000
            ctx.corr(hx, ["hist", "--n", "500", "--nth", "150", "--len", "40"], cases_name="c12b_cases%d.v" % k)
        ctx.seed -= 4000
    else:
        ctx.corr(hx, ["hist", "--n", "100", "--nth", "40", "--len", "30"], cases_name="c12b_cases.v")
    ctx.assumptions += [
        "C12b: single-threaded use of each container (their mutexes serialise callers; not exercised concurrently here)",
        "C12b: BytesFilter size >= 1 (size 0 panics on the first Add: modelled and observed, outside the property)",
        "C12b: Walker.Next is only meaningful when HasNext (Next on an empty walker panics: modelled and observed)",
        "C12b: OnChangeMap mirror theorem: callbacks enabled during every change, the three item callbacks registered, the changed callback does not fail, Modify callbacks report their change truthfully",
    ]


def run(ctx):
    run_part(ctx)


def replay(ctx, obj):
    print(obj)
    run(ctx)
    return ctx.finish(LEVEL)
