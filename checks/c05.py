"""C05 KVStore (mapdb, realm views, batches, flushkv) linearizable under concurrent use (DESIGN.md §7.5).

Proof side: coq/C05_KVConc (thread-program model, linearizability for every schedule, sound history checker).
Correspondence: free-running goroutine histories of the real code judged by the proved-sound Coq `lin_check`
(and independently by a Go checker), plus lockstep scripts comparing every call result with the model.
Round 2: large-value histories (torn values), shared batch objects (BatchModel.v), both also under the race detector;
views derived by free-running goroutines while their parents are busy; stores of >= 10 000 entries with invariant-maintaining writers."""
from . import lib

LEVEL = "proof"
DIRS = ["C05_KVConc"]


def run(ctx):
    thorough = ctx.tier == "thorough"
    hx = ctx.go_build("c05")
    ctx.proof_side(DIRS, "Properties/C05.v", extra_trusted=[
        "hand-written thread-program model of kvstore/mapdb (mapdb.go, synced_map.go) and kvstore/flushkv (Model.v: compile/step), "
        "tied to the code by the correspondence check only",
        "re-entrant Iterate consumers are modelled as a list of API calls per callback invocation (CIterRe), executed one after the other "
        "by the iterating goroutine with no lock held; consumers that block on anything but the store are outside the model",
        "sync.RWMutex modelled as: Lock needs no holder, RLock needs no write holder and no announced waiting writer; "
        "the body of each syncedKVMap method is one atomic step taken while the model thread holds the map lock",
        "Go memory model / data-race freedom is not expressible in the model (race-detector build: quick tier runs the large-value and "
        "shared-batch families under it, thorough tier all streams)",
        "view creation (WithRealm / WithExtendedRealm / Batched, Realm()) is a pure function of the realm in the model: a view is (object id of a fresh, "
        "free RWMutex; realm; flushkv or not) and CWithRealm compiles to the closed test only. Tied to the code by the `derive` family: views "
        "derived by free-running goroutines while other goroutines are inside operations on the parent and its siblings, every later call through "
        "the derived view recorded on full key = prescribed realm ++ key and judged with the whole history (linearizability, Realm(), watchdog)",
        "shared batch object (Batch.v): Set/Delete/Cancel/Commit of mapdb's batchedMutations as programs over the batch's own mutex; the flushkv "
        "batch forwards to ONE underlying batch for its whole life; a Commit's store part is compile (CCommit w content)",
    ])
    if thorough:
        for k in range(5):
            ctx.seed += 1000
            ctx.corr(hx, ["all", "--nlin", "600", "--nseq", "200", "--nstress", "20000", "--nderive", "1500", "--nlarge", "30"], cases_name="cases%d.v" % k)
        ctx.seed -= 5000
        try:
            hxr = ctx.go_build("c05", race=True)
            ctx.corr(hxr, ["all", "--nlin", "100", "--nseq", "20", "--nstress", "4000", "--biguse", "3", "--nderive", "150", "--nlarge", "4", "--nlargelin", "30"], cases_name="cases_race.v")
            ctx.assumptions.append("race-detector build of the harness ran the same histories without a report (a report aborts the harness)")
        except RuntimeError as ex:
            ctx.log("race build unavailable: %s" % ex)
            ctx.assumptions.append("race-detector build not available on this machine: data-race freedom unchecked")
    else:
        ctx.corr(hx, ["all", "--nlin", "400", "--nseq", "120", "--nstress", "4000"])
        # race-detector build, only the two families whose defect classes are data races first of all (value buffers shared across the
        # lock boundary; a batch object shared by goroutines): ~2 s compile (cached), ~8 s run. A report makes the harness exit 66.
        try:
            hxr = ctx.go_build("c05", race=True)
            ctx.corr(hxr, ["all", "--only", "big,sbatch,derive,large", "--nbig", "60", "--biguse", "3", "--nsb", "1500", "--nsbdir", "60", "--nsbseq", "40",
                           "--nderive", "40", "--nlarge", "2", "--largesnaps", "15", "--nlargelin", "0"],
                     cases_name="cases_race.v")
            ctx.assumptions.append("race-detector build ran the large-value and shared-batch families without a report (a report makes the harness "
                                   "exit with status 66 = harness-failure VIOLATION); the other streams run under it in the thorough tier only")
        except RuntimeError as ex:
            ctx.log("race build unavailable: %s" % ex)
            ctx.assumptions.append("race-detector build not available on this machine: data-race freedom unchecked")
    ctx.assumptions += [
        "view derivation is concurrent with operations on the parent/sibling views only as far as the scheduler made it so in the `derive` histories "
        "(large values keep the parent's locks held while the derivations run; derivations/chains/flushkv parents are counted in stats extra.derive); "
        "a derived view is used by the goroutine that derived it, not handed to others",
        "large stores (10 000..25 000 entries over several realms): the oracle is the invariant kept by single writers of token rings (Set next, then Delete "
        "current) and groups (Sets in order, then ONE DeletePrefix/Clear), the call-interval window from the writers' progress counters, the pairwise "
        "order of all snapshots of a history and the unchanging filler; it follows from per-operation linearizability + one-instant iteration and does "
        "not depend on timing. These histories are too long for lin_check: judged in Go only (the `large-lin` histories on the same kind of store go to Coq)",
        "atomicity of a batch Commit is per write (as the property says); a Commit or a flushkv call is a sequence of atomic operations sharing the call's interval",
        "a batch object may be shared by goroutines and reused after Commit/Cancel (the interface does not forbid it; mapdb and rocksdb batches "
        "carry their own mutex): judged as an object of its own (content read by a Commit at one instant of its interval) composed with the store; "
        "Commit does not empty a batch (a later Commit applies the content again) - the model mirrors that",
        "large-value family: a torn value is recognised because every stored value is the repetition of one 2-byte word unique to its Set",
        "free-running histories cover the interleavings the scheduler produced, not all of them; the theorem covers all schedules of the model",
        "re-entrant consumer scenarios: the writer is released when the consumer is inside a callback and the consumer re-enters once that writer "
        "has returned or is parked (runtime.Stack wait state); a scenario that does not finish within 10 s is reported as a hang",
    ]


def replay(ctx, obj):
    print(obj)
    run(ctx)
    return ctx.finish(LEVEL)
