"""C06 TypedValue/TypedStore: hand model (coq/C06_Typed) + lockstep correspondence on fault-scripted histories
and free-running concurrent runs judged by a Go-side oracle (DESIGN.md §7.6)."""
import json, os
from . import lib

LEVEL = "proof"
DIRS = ["C06_Typed"]

TRUSTED = [
    "hand-written model of kvstore/typedvalue.go (Model.v) and kvstore/typedstore.go (StoreModel.v), tied to the code by the correspondence check only",
    "the KVStore below is modelled as the raw bytes under one key (TypedValue) / a sorted association list (TypedStore); faults are injected by a KVStore wrapper and by the codecs in the harness, one script position per call",
    "error classification: the model works on error CLASSES (this call fails / key absent / callback says not-changed or fails); the code derives them with ierrors.Is. Premise, stated as ErrTree.contains (depth-first search of the error tree over Unwrap() error and Unwrap() []error): 'ierrors.Is finds a sentinel anywhere in the error tree, and nothing else'. Under it the class of an error depends only on the leaves of its tree, not on its shape (C06_is_finds_anywhere, C06_class_by_membership, C06_class_shape_independent, C06_harness_shapes). The premise is tied to the code on every run: (a) subcommand errs builds error trees through every ierrors constructor and compares ierrors.Is/As/Unwrap with the standard library, with a reference walk over the tree description and with ErrTree.contains/first_tag in Coq; (b) in the histories every error handed to TypedValue/TypedStore (store's ErrKeyNotFound, injected faults, codec failures, the callbacks' ErrTypedValueNotChanged and failures) is presented in one of 19 shapes (bare, wrapped, Join/Chain/Wrapf-with-error/double-%w trees, next to errors with a sentinel's text) and results are judged by class only",
    "the RWMutex itself is not modelled: calls are atomic steps (Get/Has = optional lock-free fast phase + full slow phase). Adequacy of that is proved from the premise 'every store call, codec call, callback and cache assignment of an operation happens while the operation holds the mutex' (C06_locked_calls_serial; C06_refuted_narrowed_lock shows the premise is needed); the premise is checked on the code by the boundary-intruder schedules and free-running runs, not proved",
]


def run(ctx):
    thorough = ctx.tier == "thorough"
    hx = ctx.go_build("c06")
    ctx.proof_side(DIRS, "Properties/C06.v", extra_trusted=TRUSTED)
    if thorough:
        for k in range(5):
            ctx.seed += 1000
            ctx.corr(hx, ["hist", "--n", "1200", "--len", "40"], cases_name="cases%d.v" % k)
        ctx.seed -= 5000
        ctx.corr(hx, ["errs", "--n", "4000"], cases_name="errs.v")
        ctx.corr(hx, ["conc", "--runs", "200"], cases_name="conc.v")
        ctx.corr(hx, ["win", "--lists", "40"], cases_name="win.v")
    else:
        ctx.corr(hx, ["hist", "--n", "600", "--len", "25"])
        ctx.corr(hx, ["errs", "--n", "600"], cases_name="errs.v")
        ctx.corr(hx, ["conc", "--runs", "30"], cases_name="conc.v")
        ctx.corr(hx, ["win", "--lists", "6"], cases_name="win.v")
    ctx.assumptions += [
        "codec premise of the theorems: enc v = Some b -> dec b = Some v (decode inverts a successful encode); codecs and callbacks are otherwise arbitrary functions, their failures arbitrary (fault script + own failures)",
        "what an error means is decided by sentinel membership in its error tree (errors.Is semantics, Go >= 1.20 multi-error trees included): an error whose tree holds ErrKeyNotFound (from kv.Get) IS 'key absent', one that holds ErrTypedValueNotChanged (from the compute function) IS 'keep the current value', whatever else is joined to it; errors that merely carry a sentinel's text are failures",
        "an injected fault makes the call return an error without side effect (a store call that applies the write and then reports an error is outside this property)",
        "nobody writes the raw key of a TypedValue behind its back (single owner of the key); values are copied by assignment (V without shared mutable structure)",
        "model fact the atomic-step theorems rest on: operations on one TypedValue are atomic w.r.t. each other BECAUSE all store calls, codec calls, the compute callback and the cache assignments of an operation happen under its mutex (Coq: C06_locked_calls_serial proves serialisation from exactly this premise for all schedules; C06_refuted_narrowed_lock: false without it). Checked on the implementation by starting a second operation (Set/Delete/Compute/Get/Has) at EVERY store-call, codec-call and callback boundary of a first caller's operations (bounded wait 20 ms; with the premise the second caller blocks on the mutex), judged by serialisability of all results + final raw bytes against the sequential raw-key reference and by cache == store afterwards; and by free-running runs (no lost update, no unwritten value read)",
        "not covered by the boundary schedules: a race window that contains no store/codec/callback call (e.g. the mutex released and re-taken between the store write and the cache assignment); sync.RWMutex and the Go memory model are trusted",
    ]


def replay(ctx, obj):
    case = obj.get("case", obj)
    if isinstance(case, dict) and "case" in case:
        case = case["case"]
    hx = ctx.go_build("c06")
    if isinstance(case, dict) and case.get("kind") == "win":
        # a scripted schedule: second operation started at one store/codec/callback boundary of the first caller
        path = os.path.join(ctx.build, "replay_case.json")
        json.dump(case, open(path, "w"))
        print(json.dumps(case))
        ctx.corr(hx, ["win", "--case", path], cases_name="replay.v")
        return ctx.finish(LEVEL)
    if isinstance(case, dict) and case.get("kind") == "err":
        # an error tree (how it is built through ierrors): ierrors.Is/As/Unwrap vs the standard library, the reference walk and ErrTree
        path = os.path.join(ctx.build, "replay_case.json")
        json.dump(case, open(path, "w"))
        print(json.dumps(case))
        ctx.corr(hx, ["errs", "--case", path], cases_name="replay.v")
        return ctx.finish(LEVEL)
    if not (isinstance(case, dict) and case.get("kind") in ("tv", "ts")):
        print("no sequential case in the replay file; re-running the check")
        run(ctx)
        return ctx.finish(LEVEL)
    path = os.path.join(ctx.build, "replay_case.json")
    json.dump(case, open(path, "w"))
    print(json.dumps(case))
    ctx.corr(hx, ["replay", "--case", path], cases_name="replay.v")
    return ctx.finish(LEVEL)
