"""C07 Sequence: hand model (coq/C07_Seq) + correspondence on fault/crash histories (DESIGN.md §7.7), every history family
run over four store configurations (bare mapdb, nested mapdb realm views, flushkv over a write-buffering backend, realm views of it)."""
from . import lib

LEVEL = "proof"
DIRS = ["C07_Seq"]


def run(ctx):
    thorough = ctx.tier == "thorough"
    hx = ctx.go_build("c07")
    ctx.proof_side(DIRS, "Properties/C07.v", extra_trusted=[
        "hand-written model of kvstore/sequence.go (Model.v), tied to the code by the correspondence check only",
        "the backing store is modelled as one optional 8-byte mark = the DURABLE mark, which the harness reads from the bare root mapdb under the full key (realm prefix ++ key) it computes itself; store faults/crashes are injected by a wrapper in the harness",
        "the write-buffering backend under flushkv (Set goes to a buffer, Flush moves it to the root mapdb or fails, every abandon/crash of the history is a power loss that drops the buffer) is harness-made: a power-loss model, not a real disk store",
    ])
    if thorough:
        for k in range(6):
            ctx.seed += 1000
            ctx.corr(hx, ["hist", "--n", "1500", "--len", "40", "--conc", "64", "--multi-ops", "300000", "--windows", "12"], cases_name="cases%d.v" % k)
        ctx.seed -= 6000
    else:
        ctx.corr(hx, ["hist", "--n", "1000", "--len", "30"])
    ctx.assumptions += [
        "guard no_wrap: mark + interval < 2^64 for every lease (uint64 wrap-around is outside the property)",
        "one live Sequence object per key at a time; a crash is modelled as a store call that fails (after the read) or is applied and then reported failed (after the write), after which the object is dropped",
        "concurrent callers are serialised by the object's mutex: the model treats Next/Release on one object as atomic; this is checked on the implementation by 32 free-running runs (distinct, per-caller increasing) and by starting a second Next/Release at EVERY store-operation boundary of the first caller's operations (exhaustive per generated op list; crash + restart afterwards; no number may repeat)",
        "store configurations (round 4): 2/5 of the histories run on a bare root mapdb, 1/5 each on (a) nested mapdb realm views (WithRealm / WithExtendedRealm chains of depth 1-3, every realm slice with spare capacity, sibling views - also the same realm opened twice - opened between the events, other Sequences with other keys on the same view and on sibling views used between the events), (b) flushkv over the write-buffering backend, (c) realm views of (b). The model is unchanged: its `disk` is the durable mark; environment events are invisible to it (they must not influence the sequence). The store below the Sequence is assumed to keep its contract (C04/C05 own it); what is checked here is the consequence of a breach for sequence numbers",
        "round 4b: a 5th configuration family (1/6 of the histories, 2 shapes of conc, windows) puts a kvstore/debug tracing wrapper into the stack (nil callback, or a counting callback with the filter all / none / only Get / only Set / everything but Set; at the top store, at the final view, or between flushkv and the backend; alone and on realm / flushkv configurations); environment events also include maintenance by the owner of a sibling view whose realm does not contain the sequence's key (fill, Iterate, DeletePrefix with the empty and a non-empty prefix, Clear, batch Commit with deletes), which a store that keeps realms apart cannot let reach the mark",
        "Flush faults: a Flush that fails after the Set was accepted is the model's FailSet / crash-after-read / failing Release (nothing became durable; the call must report the error). On the backend variant whose failed Flush KEEPS the buffer (reads see the buffer, the durable mark stays behind) the history stops the process (power loss) right after the failed call, because the model has a single mark; on the variant that DROPS the buffer the object lives on. Every abandon / crash / restart of a history on a buffering store is a power loss; 3/4 of the random histories end with power loss + restart + one Next so that a reservation that was not durable shows as a reused number",
        "other sequences are judged by the property itself (strictly increasing over all their lifetimes) and by isolation: each starts at a mark in a number range of its own (k * 2^40) and must stay there; the durable root may hold only the full keys of the sequences of the run",
        "concurrent families on every configuration: several callers on the sequence under test with other sequences and a sibling-opening goroutine beside it; 7 runs of 7-12 sequences with different keys hammering one view and its sibling views (interval 1-2, 100000 calls each); on buffering stores every k-th Flush fails and a final phase in which every Flush fails precedes the power loss (failed Flush keeps the buffer there: with concurrent writers a dropped buffer would lose other writers' accepted Sets); the store-boundary `windows` family additionally starts an environment intruder (open a sibling view, draw from sequences on it and on the same view) at every boundary incl. before/after the backend's Set and Flush",
    ]


def replay(ctx, obj):
    print(obj)
    run(ctx)
    return ctx.finish(LEVEL)
