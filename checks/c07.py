"""C07 Sequence: hand model (coq/C07_Seq) + correspondence on fault/crash histories (DESIGN.md §7.7)."""
from . import lib

LEVEL = "proof"
DIRS = ["C07_Seq"]


def run(ctx):
    thorough = ctx.tier == "thorough"
    hx = ctx.go_build("c07")
    ctx.proof_side(DIRS, "Properties/C07.v", extra_trusted=[
        "hand-written model of kvstore/sequence.go (Model.v), tied to the code by the correspondence check only",
        "the backing store is modelled as one optional 8-byte mark; store faults/crashes are injected by a wrapper in the harness",
    ])
    if thorough:
        for k in range(6):
            ctx.seed += 1000
            ctx.corr(hx, ["hist", "--n", "1000", "--len", "40"], cases_name="cases%d.v" % k)
        ctx.seed -= 6000
    else:
        ctx.corr(hx, ["hist", "--n", "500", "--len", "30"])
    ctx.assumptions += [
        "guard no_wrap: mark + interval < 2^64 for every lease (uint64 wrap-around is outside the property)",
        "one live Sequence object per key at a time; a crash is modelled as a store call that fails (after the read) or is applied and then reported failed (after the write), after which the object is dropped",
        "concurrent callers are serialised by the object's mutex: the model treats Next/Release on one object as atomic; this is checked on the implementation by 20 free-running runs (distinct, per-caller increasing) and by starting a second Next/Release at EVERY store-operation boundary of the first caller's operations (exhaustive per generated op list; crash + restart afterwards; no number may repeat)",
    ]


def replay(ctx, obj):
    print(obj)
    run(ctx)
    return ctx.finish(LEVEL)
