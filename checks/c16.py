"""C16 WorkerPool: interleaving model (coq/C16_Pool) + correspondence (DESIGN.md §7.16):
directed/random scripts compared in lockstep with the model (settle after every directive; verif yield hooks and
gated tasks restrict the schedule) and free-running runs judged by the conservation predicate."""
from . import lib

LEVEL = "proof"
DIRS = ["C16_Pool"]


def run(ctx):
    thorough = ctx.tier == "thorough"
    hx = ctx.go_build("c16")
    ctx.proof_side(DIRS, "Properties/C16.v", extra_trusted=[
        "hand-written interleaving model of runtime/workerpool/workerpool.go + task.go and of Stack.Push/PopOrWait/SignalShutdown (Model.v), tied to the code by the correspondence check only",
        "Counter.WaitIsZero and WaitGroup.Wait are modelled as steps enabled iff the awaited condition holds (condition-variable discipline of Counter: C17); critical sections without blocking calls are single steps",
        "group.go (WaitChildren/WaitParents aggregation) is NOT modelled: exercised by /repo's own tests only",
        "shutdown termination of the repaired model is not proved in general (C16_shutdown_terminates_full_statement): covered by the correspondence runs (watchdogs) and by the refutation/regression schedules only",
    ])
    if thorough:
        for k in range(5):
            ctx.seed += 1000
            ctx.corr(hx, ["run", "--n", "1500", "--free", "300"], cases_name="cases%d.v" % k, timeout=900)
        ctx.seed -= 5000
        ctx.corr(hx, ["group", "--n", "1500", "--free", "150"], cases_name="gcases.v", timeout=900)
    else:
        ctx.corr(hx, ["run", "--n", "500", "--free", "60"], timeout=300)
        ctx.corr(hx, ["group", "--n", "150", "--free", "20"], cases_name="gcases.v", timeout=300)
    ctx.assumptions += [
        "tasks terminate and block on nothing but their own nested Submit calls (harness: gated tasks are schedule restrictions of the runner, not part of the model's steps)",
        "at least one worker (WithWorkerCount >= 1)",
        "ShutdownComplete.Wait is not called concurrently with Start by the user (sync.WaitGroup reuse rule; the pool itself serialises its own Wait/Add)",
        "scripts are generated so that the settled state does not depend on the schedule (no holds with cancel-on-shutdown, single leaf submits while the dispatcher is held); free-running runs are judged by predicates only",
    ]


def replay(ctx, obj):
    print(obj)
    run(ctx)
    return ctx.finish(LEVEL)
