"""C16 WorkerPool: interleaving model (coq/C16_Pool) + group aggregation model (Group.v) + correspondence (DESIGN.md §7.16):
directed/random scripts compared in lockstep with the model (settle after every directive; verif yield hooks and
gated tasks restrict the schedule) and free-running runs judged by the conservation predicate."""
from . import lib

LEVEL = "proof"
DIRS = ["C16_Pool"]


def run(ctx):
    thorough = ctx.tier == "thorough"
    hx = ctx.go_build("c16")
    ctx.proof_side(DIRS, "Properties/C16.v", extra_trusted=[
        "hand-written interleaving model of runtime/workerpool/workerpool.go + task.go and of Stack.Push/PopOrWait/SignalShutdown (Model.v), tied to the code by the correspondence check only",
        "Counter.WaitIsZero and WaitGroup.Wait are modelled as steps enabled iff the awaited condition holds (condition-variable discipline of Counter: C17); critical sections without blocking calls are single steps",
        "group.go: hand-written model (Group.v) of the counter aggregation in which one Counter.update/set with its whole subscriber chain pool -> group -> parent group is ONE atomic step; since round 4 the per-level model GroupConc.v (lock, write, subscriber call with the child's valueMutex held, unlocks on return; any threads, observers at every step) is PROVED to refine it for every schedule (C16_group_chains_linearise, C16_group_wait_sound); that Counter.update/set hold valueMutex across notifySubscribers and that readers take that mutex is tied to the code by the sequential lockstep histories, the free concurrent runs and the observer scenarios over chains of depth 1..40 (sub-command group, family watch: stamped reads judged against accepted-and-parked tasks); the unlock-before-notify variant is refuted in the model (C16_group_wait_refuted_unlock_first)",
        "option surface (round 2): the effective worker count / cancel flag / panic flag of a pool is computed in Coq from the caller's option list and the constructor (New or Group.CreatePool) by Options.v (defaults, group default, caller's options in order, last wins; theorems C16_group_pool_options, C16_pool_options_resolved); that options.Apply applies options in order and that the shutdown-signal channel is sized after the options is tied to the code by the correspondence only (scripts over option lists, worker counts around and above NumCPU / 2*NumCPU / 4*NumCPU with every worker busy at Shutdown)",
        "external waiters on the pool's public Queue / PendingTasksCounter (round 2, Waiters.v): a waiter step = lock, test, return or register-and-unlock in one step; the Broadcast of PopOrWait on elementRemoved falls into the dispatcher's pop step; counter waits are steps enabled iff the condition holds (C17); that Stack.Push / SignalShutdown wake with Broadcast (not Signal) is tied to the code by the lockstep scripts of the sub-command waiters only (the Signal variant is refuted in the model: C16_refuted_signal_wakeup)",
        "shutdown termination is proved as absence of non-final stuck states plus progress (C16_shutdown_terminates, C16_shutdown_progress) for every schedule of the repaired model; that every fair maximal run is finite (no livelock) is not proved - covered by the watchdogs of the correspondence runs only",
    ])
    if thorough:
        for k in range(5):
            ctx.seed += 1000
            ctx.corr(hx, ["run", "--n", "1500", "--free", "300"], cases_name="cases%d.v" % k, timeout=900)
        ctx.seed -= 5000
        ctx.corr(hx, ["run", "--debug", "--n", "1500", "--free", "300", "--debounce", "400"], cases_name="cases_debug.v", timeout=900)
        ctx.corr(hx, ["group", "--n", "1500", "--free", "150", "--watch", "60", "--watchrounds", "400"], cases_name="gcases.v", timeout=900)
        ctx.corr(hx, ["waiters", "--n", "400"], cases_name="wcases.v", timeout=900)
    else:
        ctx.corr(hx, ["run", "--n", "500", "--free", "60"], timeout=300)
        # the same families again with debug.SetEnabled(true) (runtime/debug: process-global, hence a child process of the
        # harness; a child that dies - a panic in a worker goroutine - is reported with the case that was running)
        ctx.corr(hx, ["run", "--debug", "--n", "60", "--free", "16", "--debounce", "20"], cases_name="cases_debug.v", timeout=300)
        ctx.corr(hx, ["group", "--n", "150", "--free", "20"], cases_name="gcases.v", timeout=300)
        ctx.corr(hx, ["waiters", "--n", "60"], cases_name="wcases.v", timeout=300)
    ctx.assumptions += [
        "the model has no mode: the pool is assumed to be observationally the same with debug.SetEnabled(true) (runtime/debug, "
        "process-global; mode-dependent sites: task.go newTask stack trace, Task.run deadlock detector, its 5 s report) and without; "
        "tied to the code by running the scripted, free-running and DebounceFunc families of `run` in both modes (child process "
        "of the harness for the debug mode) with the same oracles and the same Coq model, plus directed cases that switch the "
        "mode while tasks execute or are queued; the detector only prints after debug.DeadlockDetectionTimeout and its output "
        "is not compared",
        "WorkerPool.DebounceFunc is not modelled in Coq: its wrapper tasks are ordinary tasks of the pool model provided they "
        "terminate; that they do (execution mutex released on every path), that of a burst only the latest invocation runs "
        "behind an executing one, exactly once, and never two at a time is judged by the Go-side oracle of the debounce family "
        "(gated bursts on 1..4 workers, several rounds and debouncers, Shutdown while a burst is pending)",
        "tasks terminate and block on nothing but their own nested Submit calls (harness: gated tasks are schedule restrictions of the runner, not part of the model's steps)",
        "at least one worker (WithWorkerCount >= 1)",
        "the pool theorems hold for every worker count n >= 1; the correspondence samples n in 1..4 and, since round 2, large n too: NumCPU-1..NumCPU+1, 2*NumCPU-1..2*NumCPU+1 (2*NumCPU = the default when WithWorkerCount is left out), 4*NumCPU, 4*NumCPU+1 (values in evidence coverage.extra.c16_worker_counts_sampled), each with all workers executing gated, re-submitting tasks at the moment of Shutdown",
        "ShutdownComplete.Wait is not called concurrently with Start by the user (sync.WaitGroup reuse rule; the pool itself serialises its own Wait/Add)",
        "scripts are generated so that the settled state does not depend on the schedule (no holds with cancel-on-shutdown, single leaf submits while the dispatcher is held); free-running runs are judged by predicates only",
    ]


def replay(ctx, obj):
    print(obj)
    run(ctx)
    return ctx.finish(LEVEL)
