"""C09 authenticated map/set: hand model over an abstract authenticated dictionary (coq/C09_ADS) + lockstep
correspondence on Set/Add/Delete/Commit/reopen histories with root classes (DESIGN.md §7.9)."""
from . import lib

LEVEL = "proof"
DIRS = ["C09_ADS"]


def run(ctx):
    thorough = ctx.tier == "thorough"
    hx = ctx.go_build("c09")
    ctx.proof_side(DIRS, "Properties/C09.v", extra_trusted=[
        "github.com/pokt-network/smt v0.9.2 (sparse Merkle trie, value hasher disabled) is modelled, not verified: every "
        "C09 theorem has the premise trie_spec O (get/update/delete laws, root is a function of the contents, Commit keeps "
        "the contents, updates do not write the node store, Import(store after Commit, root) has the committed contents); "
        "C09_root_injective additionally root_collision_free O (SHA-256 collision freedom)",
        "trie_spec is satisfiable: proved for the executable instance c_ops (sorted association list, root = canonical "
        "contents), which is the instance the correspondence check runs against the real smt",
        "hand-written model of ads/map_impl.go + set_impl.go (Model.v), tied to the code by the correspondence check only; "
        "kvstore TypedValue/TypedStore/mapdb under it are reduced to: one optional uint64, a byte-sorted key set, one "
        "optional root (their own properties are C04/C06)",
    ])
    if thorough:
        for k in range(5):
            ctx.seed += 1000
            ctx.corr(hx, ["hist", "--n", "2000", "--len", "60"], cases_name="cases%d.v" % k)
        ctx.seed -= 5000
    else:
        ctx.corr(hx, ["hist", "--n", "1000", "--len", "40"])
    # several instances in different realms of ONE database (store views with empty / 1-byte / multi-byte / prefix-related /
    # internal-sub-realm-byte realms), interleaved histories, reopen and wipe of each; model: Shared.v (one flat KV)
    if thorough:
        for k in range(3):
            ctx.seed += 1000
            ctx.corr(hx, ["realms", "--n", "1500", "--len", "60"], cases_name="realms%d.v" % k)
        ctx.seed -= 3000
    else:
        ctx.corr(hx, ["realms", "--n", "400", "--len", "40"], cases_name="realms.v")
    # store faults (the j-th store write of a call refused), Stream consumers that return an error at visit j followed by
    # further calls (watchdog), second instances over the same store, slice-typed keys/values with zero-copy codecs and
    # retaining consumers; model: Faults.v (fault script), theorems C09_faults_refine / C09_failed_commit_restores_previous
    if thorough:
        for k in range(3):
            ctx.seed += 1000
            ctx.corr(hx, ["faults", "--n", "1500", "--len", "60"], cases_name="faults%d.v" % k)
        ctx.seed -= 3000
    else:
        ctx.corr(hx, ["faults", "--n", "400", "--len", "40"], cases_name="faults.v")
    # concurrent families: ties the model's "each method is one atomic step" to the code (judged in Go, no Coq cases)
    if thorough:
        ctx.corr(hx, ["conc", "--rounds", "12", "--ms", "400"], cases_name="conc.v")
        conc_race(ctx, ["conc", "--rounds", "6", "--ms", "400"])
    else:
        ctx.corr(hx, ["conc", "--rounds", "4", "--ms", "250"], cases_name="conc.v")
    ctx.assumptions += [
        "one live instance per store view at a time (reopen = drop the instance, construct a new one over the same view); "
        "several instances may share ONE database when their store views have separated realms (the realms diverge, or one "
        "is a proper prefix of the other and continues with a byte >= 4): C09_shared_db_refines / C09_instances_independent, "
        "tied to the code by hx-c09 realms; Clear() of a view only when its realm is not a prefix of a sibling's realm; the "
        "database is modelled as a flat key-value list with prefix iteration and prefix delete (mapdb's own properties are C06)",
        "ATOMICITY: the model and every C09 theorem treat each Map/Set method call (Set/Add/Delete/Commit and also the "
        "reads Has/Get/Root/Size/Stream/WasRestoredFromStorage) as ONE atomic step of a sequential history; the theorems "
        "quantify over sequential histories only. In the code this holds because every method runs under the instance's "
        "mutex, exclusively for everything that enters the trie (Has/Get/Root/Stream too: smt drives one shared sha256 "
        "hasher per trie and rewrites lazily loaded nodes in place), so concurrent callers observe some linearization. "
        "This is NOT proved; it is tied to the code by the concurrent scenario families of the harness (hx-c09 conc: 2-4 "
        "goroutines, readers only and readers racing one writer, every result must be the sequential model's answer for "
        "a linearization compatible with real time; under recover and a watchdog)"
        + ("; in this tier also run under the Go race detector" if thorough else "; the thorough tier repeats them under the Go race detector"),
        "key/value codecs of the caller are total and injective (identity on byte strings in model and harness: K = string with "
        "a copying decoder, and slice-typed K, V with zero-copy codecs whose Stream consumers retain what they receive); a nil "
        "serialized value is the empty value (after fix c0299ea)",
        "STORE FAULTS: a fault is a store write (Set/Delete) that returns an error and writes nothing; modelled per call as "
        "'the j-th write is refused' following the order of the writes in map_impl.go (Faults.v), tied to the code by hx-c09 "
        "faults. Proved for all such histories: a Commit whose root write is refused changes nothing, a reopen always shows "
        "root and contents of the last successful Commit, WasRestored <=> a Commit succeeded. NOT failure-atomic in the code "
        "(listed findings, mirrored by the model / run as directed cases): Set/Delete whose raw-key or size write is refused "
        "keep the trie update (refused-write-keeps-trie-update); a Commit that fails after its root write, inside the "
        "external trie's node writes, leaves a store that is neither the old nor the new committed state "
        "(commit-fault-after-root-write; the trie's node writes are not modelled). Read faults (store Get errors) are not "
        "injected",
        "Size/Stream agree with the plain map on histories whose reopens happen without uncommitted changes "
        "(clean_reopens): size and raw keys are written through to the store while trie nodes wait for Commit, so a "
        "reopen that drops uncommitted changes keeps the newer size/raw keys (mirrored by the model, outside the property); "
        "Get/Has/Delete/Root/WasRestored are proved for all histories",
        "Size() = number of keys under the guard |contents| < 2^63 (uint64 counter converted to int)",
        "different contents give different roots: observed over everything explored (root classes) and proved only "
        "under the explicit premise root_collision_free",
    ]


def conc_race(ctx, args):
    """Runs the concurrent families with a -race build; a reported data race is a violation (replay = the run itself)."""
    import glob, os
    hxr = ctx.go_build("c09", race=True)
    logp = os.path.join(ctx.build, "conc_race_log")
    for f in glob.glob(logp + ".*"):
        os.remove(f)
    old = os.environ.get("GORACE")
    os.environ["GORACE"] = "exitcode=0 log_path=" + logp
    try:
        ctx.corr(hxr, args, cases_name="conc_race.v", timeout=600)
    finally:
        if old is None:
            del os.environ["GORACE"]
        else:
            os.environ["GORACE"] = old
    reports = ""
    for f in sorted(glob.glob(logp + ".*")):
        reports += open(f, errors="replace").read()
    n = reports.count("WARNING: DATA RACE")
    ctx.cov.setdefault("extra", {})["conc_race_reports"] = n
    if n:
        ctx.violation({"kind": "data-race-between-method-calls", "reports": n, "seed": ctx.seed,
                       "case": {"conc_race": True, "args": args},
                       "what": "the Go race detector saw unsynchronised accesses between concurrent Map/Set method calls: the "
                               "methods are not atomic steps (model assumption ATOMICITY)",
                       "first_report": reports[:3500], "replay": "bin/check C09 --replay <this file>"}, tag="race")


def replay(ctx, obj):
    """Re-runs the single history stored in a replay file (implementation + oracle + model); falls back to the whole check."""
    import json, os
    print(obj)
    if isinstance(obj, dict) and "seed" in obj:
        ctx.seed = int(obj["seed"])
    case = obj.get("case") if isinstance(obj, dict) else None
    if isinstance(case, dict) and "conc" in case:      # one concurrent scenario: schedule-dependent, so several attempts
        hx = ctx.go_build("c09")
        path = os.path.join(ctx.build, "replay_conc.json")
        json.dump({"conc": case["conc"]}, open(path, "w"))
        ctx.corr(hx, ["conc", "--replay", path, "--repeat", "10"], cases_name="replay_conc.v")
    elif isinstance(case, dict) and case.get("conc_race"):
        conc_race(ctx, list(case.get("args") or ["conc", "--rounds", "6", "--ms", "400"]))
    elif isinstance(case, dict) and "faults" in case:
        hx = ctx.go_build("c09")
        ctx.proof_side(DIRS, "Properties/C09.v")
        path = os.path.join(ctx.build, "replay_faults.json")
        json.dump({"faults": case["faults"]}, open(path, "w"))
        ctx.corr(hx, ["faults", "--replay", path], cases_name="replay_faults.v")
    elif isinstance(case, dict) and "realms" in case:
        hx = ctx.go_build("c09")
        ctx.proof_side(DIRS, "Properties/C09.v")
        path = os.path.join(ctx.build, "replay_realms.json")
        json.dump({"realms": case["realms"]}, open(path, "w"))
        ctx.corr(hx, ["realms", "--replay", path], cases_name="replay_realms.v")
    elif isinstance(case, dict) and "history" in case:
        hx = ctx.go_build("c09")
        ctx.proof_side(DIRS, "Properties/C09.v")
        path = os.path.join(ctx.build, "replay_case.json")
        json.dump({"set": bool(case.get("set")), "history": case["history"]}, open(path, "w"))
        ctx.corr(hx, ["hist", "--replay", path], cases_name="replay_cases.v")
    else:
        run(ctx)
    return ctx.finish(LEVEL)
