"""C12 part a: ShrinkingMap, RandomMap, PriorityQueue/generalheap/timed.PriorityQueue, Queue, RingBuffer, Stack
(coq/C12a_Containers) + lockstep correspondence (harness/cmd/c12a). Run through the aggregator: bin/check C12."""
from . import lib

LEVEL = "proof"
DIRS = ["C12a_Containers"]


def run_part(ctx):
    thorough = ctx.tier == "thorough"
    hx = ctx.go_build("c12a")
    ctx.proof_side(DIRS, "Properties/C12a.v", extra_trusted=[
        "hand-written models of ds/shrinkingmap, ds/randommap, ds/priorityqueue + ds/generalheap + container/heap.{Push,Pop,Remove,up,down} "
        "+ runtime/timed/priority_queue.go, ds/queue, ds/ringbuffer, ds/stack (coq/C12a_Containers/{SMap,RMap,Heap,Ring}.v), "
        "tied to the code by the correspondence check only (return values and reflected internal fields after every operation)",
        "math/rand is an oracle: the harness re-seeds the global source and predicts rand.Intn / rand.Perm, the theorems quantify over every "
        "index below the size and every permutation",
        "mutexes are not modelled (sequential histories); atomicity of the methods is tied to the code only by the Go-side forced-interleaving "
        "family (harness/cmd/c12a/conc.go: calls queued behind a writer parked in a harness-supplied callback or behind the held mutex, judged by "
        "'some sequential order explains all results') and the thread-safe stack's concurrent push smoke test",
    ])
    if thorough:
        for k in range(5):
            ctx.seed += 1000
            ctx.corr(hx, ["hist", "--n", "720", "--len", "40", "--conc", "600"], cases_name="c12a_cases%d.v" % k)
        ctx.seed -= 5000
    else:
        ctx.corr(hx, ["hist", "--n", "600", "--len", "30"], cases_name="c12a_cases.v")
    ctx.assumptions += [
        "c12a: the C12 theorems quantify over SEQUENTIAL operation histories; that every method of the thread-safe containers is atomic (so that "
        "concurrent use is some sequential history) is not proved: it is tied to the code by the forced-interleaving family only (GetOrCreate / Compute / "
        "Delete-with-condition of ShrinkingMap parked inside their callbacks, all containers behind their held mutex; 2-4 queued calls; oracle: a sequential "
        "order of the calls explains every result, callback count and the final contents)",
        "c12a: timed.PriorityQueue priorities are abstract instants; the harness renders every key and PopUntil bound in a randomly chosen time.Time "
        "representation of its instant (with/without monotonic reading, Local/UTC/fixed zones, rebuilt from Unix nanoseconds); the ds queue's keys carry a "
        "tag its comparator ignores (equal but not identical keys)",
        "c12a: the float32 shrinking ratio is modelled as an exact rational (exact for the small counters and dyadic/short ratios used; float rounding near 2^24 deletions is outside the model)",
        "c12a: heap ordering theorems (heap invariant, Pop/Peek = minimum, PopAll sorted) assume the user comparator is a strict weak order (CompareTo<0 asymmetric, negatively transitive); PopUntil-exact additionally assumes the three-way contract a>b iff b<a; both discharged for the ascending, descending and tie-heavy comparators used (index/contents/handle theorems hold for any comparator)",
        "c12a: Queue/RingBuffer refinement is guarded by capacity >= 1 (capacity 0 panics in ForceOffer/Add: modelled and checked as a panic outcome); negative capacities panic in make()",
        "c12a: Go map iteration order is unconstrained: Pop's choice is replayed from the observation, listings are compared sorted",
    ]


def run(ctx):
    run_part(ctx)


def replay(ctx, obj):
    print(obj)
    run(ctx)
    return ctx.finish(LEVEL)
