"""C12 part a: ShrinkingMap, RandomMap, PriorityQueue/generalheap/timed.PriorityQueue, Queue, RingBuffer, Stack
(coq/C12a_Containers) + lockstep correspondence (harness/cmd/c12a). Run through the aggregator: bin/check C12."""
from . import lib

LEVEL = "proof"
DIRS = ["C12a_Containers"]


def run_part(ctx):
    thorough = ctx.tier == "thorough"
    hx = ctx.go_build("c12a")
    ctx.proof_side(DIRS, "Properties/C12a.v", extra_trusted=[
        "hand-written models of ds/shrinkingmap, ds/randommap, ds/priorityqueue + ds/generalheap + container/heap.{Push,Pop,Remove,up,down} "
        "+ runtime/timed/priority_queue.go, ds/queue, ds/ringbuffer, ds/stack (coq/C12a_Containers/{SMap,RMap,Heap,Ring}.v), "
        "tied to the code by the correspondence check only (return values and reflected internal fields after every operation)",
        "math/rand is an oracle: the harness re-seeds the global source and predicts rand.Intn / rand.Perm, the theorems quantify over every "
        "index below the size and every permutation",
        "mutexes are not modelled (sequential histories); atomicity of the methods is tied to the code only by the Go-side forced-interleaving "
        "family (harness/cmd/c12a/conc.go: calls queued behind a writer parked in a harness-supplied callback or behind the held mutex, judged by "
        "'some sequential order explains all results'), the free-running family (free.go: 2-4 goroutines per container for a fixed time, conservation "
        "oracles, also under the race detector) and the thread-safe stack's concurrent push smoke test",
    ])
    if thorough:
        for k in range(5):
            ctx.seed += 1000
            ctx.corr(hx, ["hist", "--n", "720", "--len", "40", "--conc", "600"], cases_name="c12a_cases%d.v" % k)
        ctx.seed -= 5000
    else:
        ctx.corr(hx, ["hist", "--n", "600", "--len", "30"], cases_name="c12a_cases.v")
    # free-running concurrent family (no Coq cases): plain build, then the same under the race detector
    ms = "400" if thorough else "200"
    rounds = "4" if thorough else "1"
    ctx.corr(hx, ["free", "--ms", ms, "--rounds", rounds], cases_name="c12a_free.v")
    try:
        race_free(ctx, ["free", "--ms", ms, "--rounds", rounds])
        ctx.assumptions.append("c12a: the free-running family also ran from a -race build without a data race report (a report is a VIOLATION)")
    except RuntimeError as ex:
        ctx.log("race build unavailable: %s" % ex)
        ctx.assumptions.append("c12a: race-detector build not available on this machine: the free-running family ran without it")
    ctx.assumptions += [
        "c12a: the C12 theorems quantify over SEQUENTIAL operation histories; that every method of the thread-safe containers is atomic (so that "
        "concurrent use is some sequential history) is not proved: it is tied to the code by the forced-interleaving family only (GetOrCreate / Compute / "
        "Delete-with-condition of ShrinkingMap parked inside their callbacks, all containers behind their held mutex; 2-4 queued calls; oracle: a sequential "
        "order of the calls explains every result, callback count and the final contents) and by the free-running family (all six containers, "
        "2-4 goroutines for a fixed time, schedule-independent conservation oracles, plain and -race builds)",
        "c12a: timed.PriorityQueue priorities are abstract instants; the harness renders every key and PopUntil bound in a randomly chosen time.Time "
        "representation of its instant (with/without monotonic reading, Local/UTC/fixed zones, rebuilt from Unix nanoseconds); the ds queue's keys carry a "
        "tag its comparator ignores (equal but not identical keys)",
        "c12a: the float32 shrinking ratio is modelled as an exact rational (exact for the small counters and dyadic/short ratios used; float rounding near 2^24 deletions is outside the model)",
        "c12a: heap ordering theorems (heap invariant, Pop/Peek = minimum, PopAll sorted) assume the user comparator is a strict weak order (CompareTo<0 asymmetric, negatively transitive); PopUntil-exact additionally assumes the three-way contract a>b iff b<a; both discharged for the ascending, descending and tie-heavy comparators used (index/contents/handle theorems hold for any comparator)",
        "c12a: Queue/RingBuffer refinement is guarded by capacity >= 1 (capacity 0 panics in ForceOffer/Add: modelled and checked as a panic outcome); negative capacities panic in make()",
        "c12a: Go map iteration order is unconstrained: Pop's choice is replayed from the observation, listings are compared sorted",
    ]


def race_free(ctx, args):
    """Runs the free-running concurrent family from a -race build; a reported data race is a violation (replay = the run itself)."""
    import glob, os
    hxr = ctx.go_build("c12a", race=True)
    logp = os.path.join(ctx.build, "c12a_race_log")
    for f in glob.glob(logp + ".*"):
        os.remove(f)
    old = os.environ.get("GORACE")
    os.environ["GORACE"] = "exitcode=0 log_path=" + logp
    try:
        ctx.corr(hxr, args, cases_name="c12a_free_race.v", timeout=600)
    finally:
        if old is None:
            del os.environ["GORACE"]
        else:
            os.environ["GORACE"] = old
    reports = ""
    for f in sorted(glob.glob(logp + ".*")):
        reports += open(f, errors="replace").read()
    n = reports.count("WARNING: DATA RACE")
    ctx.cov.setdefault("extra", {})["c12a_race_reports"] = n
    if n:
        ctx.violation({"kind": "data-race-between-method-calls", "reports": n, "seed": ctx.seed,
                       "case": {"c12a_free_race": True, "args": args},
                       "what": "the Go race detector saw unsynchronised accesses between concurrent method calls of a goroutine-safe container: "
                               "its methods are not atomic steps (the reading under which the sequential C12 theorems apply to concurrent use)",
                       "first_report": reports[:3500], "replay": "bin/check C12 --replay <this file>"}, tag="race")


def run(ctx):
    run_part(ctx)


def replay(ctx, obj):
    print(obj)
    run(ctx)
    return ctx.finish(LEVEL)
