"""C08 BatchedWriter: interleaving model (coq/C08_Batch) + scripted-schedule and free-running correspondence (DESIGN.md §7.8)."""
from . import lib

LEVEL = "proof"
DIRS = ["C08_Batch"]


def run(ctx):
    thorough = ctx.tier == "thorough"
    hx = ctx.go_build("c08")
    ctx.proof_side(DIRS, "Properties/C08.v", extra_trusted=[
        "hand-written interleaving model of kvstore/batch_writer.go + batch_collector.go (Model.v): one step per atomic access / channel operation / callback, tied to the code by the correspondence check only",
        "Go memory model: sync/atomic operations, channel operations and sync.Mutex/Once/WaitGroup are sequentially consistent atomic steps",
        "the KVStore batch (Batched/Set/Commit/Cancel) is modelled as an atomic map update; BatchWriteObject implementations are the harness objects (flag = test-and-set, content read at BatchWrite)",
    ])
    if thorough:
        for k in range(5):
            ctx.seed += 1000
            ctx.corr(hx, ["run", "--n", "600", "--free", "600"], cases_name="cases%d.v" % k)
        ctx.seed -= 5000
    else:
        ctx.corr(hx, ["run", "--n", "250", "--free", "250"])
    ctx.assumptions += [
        "batch size >= 1 (batch size 0 panics in BatchCollector.Add on the first object; outside the property)",
        "one BatchedWriter life cycle (autoStartOnce: a stopped writer is never restarted); store errors (panics in the writer) are not modelled",
        "no-blocking is proved only in part: a call past its running check is never abandoned by the writer, and after the writer's exit Wait is open and nothing is queued or in flight; absence of stuck states (C08_no_block_full_statement) and termination under a fair scheduler are not proved (watchdogs in the harness observe them)",
        "completeness is proved up to 'Stop returns only after the writer terminated with everything written committed and done and nothing queued or in flight'; that an accepted object is written with its latest content (C08_complete_full_statement) is checked per run by the Go oracle and Corr.free_ok, not proved",
        "scripted schedules are replayed at the granularity of the harness gates (Enqueue hook, flag test, writer callbacks); finer interleavings are covered by the proof only",
    ]


def replay(ctx, obj):
    print(obj)
    run(ctx)
    return ctx.finish(LEVEL)
