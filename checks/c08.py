"""C08 BatchedWriter: interleaving model (coq/C08_Batch) + scripted-schedule and free-running correspondence (DESIGN.md §7.8);
store faults, option grid, rich objects (mutation-level store contract), concurrent first Enqueue calls."""
from . import lib

LEVEL = "proof"
DIRS = ["C08_Batch"]


def run(ctx):
    thorough = ctx.tier == "thorough"
    hx = ctx.go_build("c08")
    ctx.proof_side(DIRS, "Properties/C08.v", extra_trusted=[
        "hand-written interleaving model of kvstore/batch_writer.go + batch_collector.go (Model.v): one step per atomic access / channel operation / callback, tied to the code by the correspondence check only",
        "Go memory model: sync/atomic operations, channel operations and sync.Mutex/Once/WaitGroup are sequentially consistent atomic steps",
        "the KVStore batch (Batched/Set/Commit/Cancel) is modelled as an atomic map update; BatchWriteObject implementations are the harness objects (flag = test-and-set, content read at BatchWrite)",
        "store faults (FaultModel.v): a batch Commit / Batched() call that returns an error applies nothing to the store; the writer's panic(err) has no recover on its stack, so the Go runtime terminates the process: modelled as a terminal event (no thread steps afterwards)",
    ])
    if thorough:
        for k in range(5):
            ctx.seed += 1000
            ctx.corr(hx, ["run", "--n", "600", "--free", "600", "--fault", "400", "--child", "20", "--opts", "3", "--objs", "600", "--startup", "20000", "--startup-budget", "60s"], cases_name="cases%d.v" % k)
        ctx.seed -= 5000
    else:
        ctx.corr(hx, ["run", "--n", "250", "--free", "250", "--fault", "120", "--child", "8", "--opts", "1", "--objs", "160", "--startup", "4000", "--startup-budget", "6s"])
    ctx.assumptions += [
        "batch size >= 1 (batch size 0 panics in BatchCollector.Add on the first object; outside the property)",
        "one BatchedWriter life cycle (autoStartOnce: a stopped writer is never restarted)",
        "store faults: C08_safety_faults is proved for every fault script (which Commit / Batched() call fails is a free choice; the failure is all-or-nothing: a store that applies part of a batch and then reports an error is not modelled; errors of BatchedMutations.Set inside an object's BatchWrite are the object's business). The harness injects 'the n-th batch Commit (n = 1..3) or the n-th Batched() (n = 1..4) call fails' into free-running cases; in-process the injected error parks the panicking writer goroutine inside error.Error() (called by runtime.preprintpanics), and a few sequential cases per run are executed in a child process that really dies (exit status and panic message checked)",
        "batch timer: the model treats 'the time-out fires' as a free scheduler choice that is always enabled (C08_timeout_always_enabled) and is the only step of an idle writer (C08_idle_writer_only_timeout), so the theorems cover every timer behaviour. The correspondence ran these timer configurations: scripted 50ms (timer awaited explicitly), free/fault 0 and 1-3ms, option grid -1h, -1ns, 0, 1ns, 1us, 300us, 2ms, default 500ms (fires at once / early: completeness at StopBatchWriter judged under a 6s watchdog) and 1h (never fires within the run: only batch-size and Flush triggers, no Stop since the code releases Stop only through the timer). Options varied: WithBatchTimeout (those 9 values), WithBatchSize 1/2/4/not given (10000), WithQueueSize 0/1/2/not given (10000); not varied: batch size <= 0 and queue size < 0 (constructor / first Add panics: outside the property)",
        "no-blocking is proved in two forms for the repaired code: no reachable state with an unfinished call is stuck (C08_no_block / C08_progress) and every reachable state has a continuation of the schedule in which every call returns (C08_can_finish); that a fair scheduler actually takes such a continuation (termination under fairness, real timers) is not formalised (watchdogs in the harness observe it)",
        "completeness is proved at value level over the model (C08_complete, C08_complete_written, C08_complete_ordered, C08_enqueue_accepted_before_stop): the object's content is one value announced at the Enqueue invocation and read by the writer at BatchWrite; the Go oracle and Corr.free_ok check the same predicates on every run",
        "object behaviours (objs.go, 160 quick / 5x600 thorough cases): objects with 1-3 keys that write their full state at every BatchWrite (Set for keys they hold, Delete for keys they do not, forward / reverse order, optionally Delete-then-Set or Set-then-Delete of one key inside one BatchWrite, values of 0-6 bytes), all marshalling into ONE key buffer and ONE value buffer that are overwritten by the next call and scribbled over when BatchWrite returns; sequential script change / Enqueue / wait until collected / change again / Enqueue again, so that one object is written twice inside one batch (batch size above the number of schedulings, 1h batch time-out, commit by Flush) incl. Set-then-Delete and Delete-then-Set of one key by two schedulings of one batch; other cases with batch size 1-3, time-outs 2/5/25 ms and StopBatchWriter. Oracle: the store read back completely and byte-exact = the recorded mutation calls (arguments copied at call time) of the committed batches applied in call order (Muts.apply_muts, Corr.objs_ok) = per object the state of its last committed BatchWrite. Only the mapdb store is exercised (the store every test and simulation runs the BatchedWriter on)",
        "start-up (startup.go, 4000 quick (time budget 6 s, at least 1000) / 5x20000 thorough rounds): 2-8 producers issue the very first Enqueue calls of a fresh BatchedWriter at the same moment (spin barrier, three release patterns incl. 0-300 iterations of skew), 1/3 of them a second call right after; StopBatchWriter is invoked only after all have returned, so no call may be rejected and everything must be written at Stop's return. The window of a non-atomic start cannot be widened from outside (private mutex): the family is statistical. The model has the auto-start as explicit steps with sync.Once semantics (C08_concurrent_first_enqueues_started, C08_complete_before_stop; C08_refuted_start_flag for a test-and-set start flag)",
        "scripted schedules are replayed at the granularity of the harness gates (Enqueue hook, flag test, writer callbacks); finer interleavings are covered by the proof only",
    ]


def replay(ctx, obj):
    print(obj)
    run(ctx)
    return ctx.finish(LEVEL)
