"""C08 BatchedWriter: interleaving model (coq/C08_Batch) + scripted-schedule and free-running correspondence (DESIGN.md §7.8)."""
from . import lib

LEVEL = "proof"
DIRS = ["C08_Batch"]


def run(ctx):
    thorough = ctx.tier == "thorough"
    hx = ctx.go_build("c08")
    ctx.proof_side(DIRS, "Properties/C08.v", extra_trusted=[
        "hand-written interleaving model of kvstore/batch_writer.go + batch_collector.go (Model.v): one step per atomic access / channel operation / callback, tied to the code by the correspondence check only",
        "Go memory model: sync/atomic operations, channel operations and sync.Mutex/Once/WaitGroup are sequentially consistent atomic steps",
        "the KVStore batch (Batched/Set/Commit/Cancel) is modelled as an atomic map update; BatchWriteObject implementations are the harness objects (flag = test-and-set, content read at BatchWrite)",
    ])
    if thorough:
        for k in range(5):
            ctx.seed += 1000
            ctx.corr(hx, ["run", "--n", "600", "--free", "600"], cases_name="cases%d.v" % k)
        ctx.seed -= 5000
    else:
        ctx.corr(hx, ["run", "--n", "250", "--free", "250"])
    ctx.assumptions += [
        "batch size >= 1 (batch size 0 panics in BatchCollector.Add on the first object; outside the property)",
        "one BatchedWriter life cycle (autoStartOnce: a stopped writer is never restarted); store errors (panics in the writer) are not modelled",
        "no-blocking is proved in two forms for the repaired code: no reachable state with an unfinished call is stuck (C08_no_block / C08_progress) and every reachable state has a continuation of the schedule in which every call returns (C08_can_finish); that a fair scheduler actually takes such a continuation (termination under fairness, real timers) is not formalised (watchdogs in the harness observe it)",
        "completeness is proved at value level over the model (C08_complete, C08_complete_written, C08_complete_ordered, C08_enqueue_accepted_before_stop): the object's content is one value announced at the Enqueue invocation and read by the writer at BatchWrite; the Go oracle and Corr.free_ok check the same predicates on every run",
        "scripted schedules are replayed at the granularity of the harness gates (Enqueue hook, flag test, writer callbacks); finer interleavings are covered by the proof only",
    ]


def replay(ctx, obj):
    print(obj)
    run(ctx)
    return ctx.finish(LEVEL)
