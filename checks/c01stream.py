"""C01 part c01stream: every stream Write*/Read* helper pair round-trips through any io.Reader however it splits its
reads; Serializer/Deserializer primitive pairs round-trip (model coq/C02_Prims, harness cmd/c02prims sub-command stream)."""
from . import lib

LEVEL = "proof"
DIRS = ["C02_Prims"]


def run_part(ctx):
    thorough = ctx.tier == "thorough"
    hx = ctx.go_build("c02prims")
    ctx.proof_side(DIRS, "Properties/C01Stream.v", extra_trusted=[
        "hand-written model of serializer/stream (read.go, write.go, byte_buffer.go) and of the Serializer/Deserializer "
        "primitives (C02_Prims/Stream.v, Model.v), tied to the code by the correspondence check only",
        "iotest.DataErrReader (EOF delivered together with the last data, 1 KiB re-chunking) is compared with the model at the "
        "trivial chunking: chunk independence is a theorem, the early EOF is absorbed by io.ReadFull (observed, not modelled)",
    ])
    if thorough:
        for k in range(4):
            ctx.seed += 1000
            ctx.corr(hx, ["stream", "--n", "400"], cases_name="stream_cases%d.v" % k)
        ctx.seed -= 4000
    else:
        ctx.corr(hx, ["stream", "--n", "160"], cases_name="stream_cases.v")
    ctx.assumptions += [
        "c01stream: round trip is claimed for fault-free readers (any split of the reads); a reader error is reported as that error",
        "c01stream: time values inside [0, MaxInt64] ns, numbers inside the range of their kind, lengths that fit the length prefix (otherwise the write side reports an error, which is compared too)",
    ]
