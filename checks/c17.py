"""C17 Starving/DAG mutexes, Counter/Stack waits: interleaving model (coq/C17_Sync) + scripted arrival orders,
free-running contention, misuse under recover (DESIGN.md §7.17)."""
import os
import shutil

from . import lib

LEVEL = "proof"
DIRS = ["C17_Sync"]


def run(ctx):
    thorough = ctx.tier == "thorough"
    # compile-time mode switches of runtime/syncutils: the build tags `deadlock` and `fakemutex` re-alias syncutils.Mutex/RWMutex
    # (go-deadlock's mutexes / an RWMutex whose RLock is exclusive). The four objects use sync.Mutex/sync.RWMutex directly, so
    # the variants must behave identically: binaries built with each tag run the scripted families (Go-side oracle; cases are
    # evaluated in Coq only when they differ from the plain build's) and the free-running ones.
    variants = []
    for tag in ("deadlock", "fakemutex"):
        b = ctx.go_build("c17", tags="verif," + tag)
        shutil.copy2(b, b + "-" + tag)
        variants.append((tag, b + "-" + tag))
    hx = ctx.go_build("c17")
    ctx.proof_side(DIRS, "Properties/C17.v", extra_trusted=[
        "hand-written interleaving model of runtime/syncutils starvingmutex.go, dagmutex.go, counter.go, stack.go (Model.v): "
        "every critical section under the internal sync.Mutex is one atomic step, sync.Cond = parked list + woken list + "
        "pending notifications; tied to the code by the correspondence check only",
        "sync.Mutex / sync.Cond of the Go runtime behave as documented (Wait registers before it unlocks, no spurious wake-ups, "
        "Signal wakes the oldest waiter - the last only matters for the scripted comparison, not for the theorems)",
        "add-only verif accessors (runtime/syncutils/verif_c17_accessors.go) read the sync.Cond ticket counters by reflection",
    ])
    n = "600" if thorough else "200"
    for what in ("sm", "dag", "cs"):
        args = ["scripted", "--what", what, "--n", n]
        if thorough:
            args.append("--thorough")
        ctx.corr(hx, args, cases_name="cases_%s.v" % what)
        # the same generator run again with debug.SetEnabled(true) (runtime/debug deadlock-detection mode: the only run-time
        # mode switch of runtime/syncutils; process-global, hence a second harness invocation). Same Go-side oracle; the
        # model has no mode, so cases that are textually identical to the default-mode run (the scripted runner is
        # deterministic) are covered by its Coq evaluation and only differing cases files are evaluated again.
        ctx.corr(hx, args + ["--debug", "--same-as", os.path.join(ctx.build, "cases_%s.v" % what)],
                 cases_name="cases_%s_debug.v" % what)
        for tag, hxt in variants:
            ctx.corr(hxt, args + ["--variant", tag, "--same-as", os.path.join(ctx.build, "cases_%s.v" % what)],
                     cases_name="cases_%s_%s.v" % (what, tag))
            if thorough:
                ctx.corr(hxt, args + ["--variant", tag, "--debug", "--same-as", os.path.join(ctx.build, "cases_%s.v" % what)],
                         cases_name="cases_%s_%s_debug.v" % (what, tag))
    # callbacks held at a gate (harness/cmd/c17/hold.go): PopOrWait's waitCondition / the Counter's subscriber are supplied by the
    # harness and block at a gate; while a caller is held INSIDE its callback, Push / Pop / SignalShutdown / Size / size waits
    # (Set / Update / Get / value waits) of other goroutines arrive; each is waited for until it returned, is parked on a
    # condition variable (ticket counters) or is blocked on the object's mutex (goroutine wait reason), then the gate opens.
    # Systematic (which evaluation is held) x (interfering operations) x (operations afterwards) + seeded random event lists;
    # judged by the property (nobody parked on a true condition, returned waits had a true condition); the stack cases are
    # evaluated in Coq, where the callback is a step of its own with the mutex held (Corr.v hsys)
    # + callbacks that panic (harness/cmd/c17/panic.go, kinds cntp / stkp): one-shot panics at the entry of the callback / after it
    # read resp. was held (arrivals queued on the mutex while the panic unwinds); the caller recovers; afterwards waits / updates
    # of other goroutines and the observer (which takes the mutex, under a watchdog) must work as on the state the code left at
    # the panic point. Go-side oracle only. Directed case first: known finding counter-panicking-subscriber-skips-broadcast
    ctx.corr(hx, ["scripted", "--what", "hold", "--n", "900" if thorough else "200"], cases_name="cases_hold.v")
    nfree = "25" if thorough else "4"
    for tag, hxt in variants:
        ctx.corr(hxt, ["free", "--variant", tag, "--n", "2"], cases_name="free_%s.v" % tag)
        if thorough:
            ctx.corr(hxt, ["free", "--variant", tag, "--debug", "--n", "2"], cases_name="free_%s_debug.v" % tag)
    ctx.corr(hx, ["free", "--n", nfree], cases_name="free.v")
    # debug mode: the same runs + directed cases about the deadlock detector itself (short waits: detectors end with the
    # acquisition, nothing reported; a wait longer than debug.DeadlockDetectionTimeout: reported once, still parked, granted
    # after the release)
    ctx.corr(hx, ["free", "--debug", "--n", nfree], cases_name="free_debug.v")
    if thorough:
        # the same contention runs under the race detector (a reported race makes the harness exit non-zero)
        hxr = ctx.go_build("c17", race=True)
        ctx.corr(hxr, ["free", "--n", "6"], cases_name="free_race.v")
        ctx.corr(hxr, ["free", "--debug", "--n", "3"], cases_name="free_race_debug.v")
    ctx.assumptions += [
        "the model has no mode: StarvingMutex/DAGMutex lock semantics are assumed to be the same with debug.SetEnabled(true) "
        "(runtime/debug deadlock-detection mode, the only run-time mode switch of runtime/syncutils) and without; tied to the code "
        "by running every scripted and free-running family in both modes (separate harness invocations) with the same oracle and "
        "the same model; the deadlock detector only prints after debug.DeadlockDetectionTimeout (5 s; scripted waits are "
        "micro-seconds), it never panics or touches the lock (directed cases: short waits unreported and detectors ended, a "
        "long wait reported once, still parked, granted after the release); switching the mode while a call is blocked: "
        "directed cases only. Build tags `deadlock` / `fakemutex` only re-alias syncutils.Mutex/RWMutex, which none of the four "
        "objects uses (they use sync.Mutex/sync.RWMutex directly): binaries built with each tag run the same families and must "
        "produce the same observations",
        "critical sections under the objects' internal mutexes are atomic; Go memory-model data races are out of scope "
        "(StarvingMutex.String() reads the fields without the mutex: not used)",
        "liveness is stated as absence of lost wake-ups / of stuck states, not as eventual progress under a fair scheduler "
        "(a StarvingMutex starves by design)",
        "scripted comparison: one operation is released at a time and the harness waits for quiescence, so races between "
        "two woken goroutines for the same resource are excluded by the generator (at most one PopOrWait thread per case)",
        "Counter: int overflow of value+delta is outside the model (values are unbounded integers); subscribers are not modelled "
        "in Coq (a subscriber held inside Set/Update while waits and updates arrive is judged by the Go-side oracle only)",
        "callbacks that panic (Counter subscriber, PopOrWait's waitCondition; the caller recovers) are outside the Coq model: the Go-side "
        "oracle of the hold family judges what follows (no leaked mutex: every later wait / update / observer returns or parks; nobody "
        "parked on a true condition; Counter: the value written before the subscribers ran stays, Stack: unchanged). A Counter "
        "subscriber only panics when no wait is parked (exact: read under valueMutex) because Set/Update skip their Broadcast when "
        "set()/update() unwinds - known finding counter-panicking-subscriber-skips-broadcast, reproduced by a directed case",
        "PopOrWait's wait condition is modelled as a callback that reads one boolean when it returns; it is evaluated as a step of "
        "its own with the stack's mutex held (tied to the code by the held-callback cases: operations arriving while a caller is "
        "inside its callback must be blocked on the mutex, decided from the goroutine wait reasons sync.(RW)Mutex.(R)Lock of the Go "
        "runtime, go1.23); callbacks that call back into the same Stack/Counter dead-lock by design of the code and are not generated",
    ]


def replay(ctx, obj):
    print(obj)
    run(ctx)
    return ctx.finish(LEVEL)
