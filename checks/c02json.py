"""C02 part c02json: JSONDecode/MapDecode never panic on well-formed JSON of any shape (coq/C01_SerixJson)."""
from . import lib

DIRS = ["C01_SerixJson"]
TRUSTED = [
    "hand-written model of serix/map_decode.go (C01_SerixJson/Model.v), tied to the code by the correspondence check only",
    "encoding/json.Unmarshal into map[string]any is not modelled (the model starts from the parsed tree; a number outside float64 is JHuge)",
]


def run_part(ctx):
    thorough = ctx.tier == "thorough"
    hx = ctx.go_build("c01json")
    ctx.proof_side(DIRS, "Properties/C02Json.v", extra_trusted=TRUSTED)
    if thorough:
        for k in range(4):
            ctx.seed += 1000
            ctx.corr(hx, ["mut", "--n", "400", "--k", "6"], cases_name="c02json_mut%d.v" % k)
        ctx.seed -= 4000
    else:
        ctx.corr(hx, ["mut", "--n", "150", "--k", "5"], cases_name="c02json_mut.v")
    ctx.assumptions += [
        "c02json: the theorem is about jdecode for ALL schemas of the modelled fragment and ALL JSON trees; resource bounds (allocation) of the JSON path are those of encoding/json and are not modelled",
        "c02json: destination values are fresh (reflect.New): decoding into a pre-filled object (mapDecodeSlice appends) is outside the model",
    ]
