"""C10 ds.List = container/list: pointer-level model (coq/C10_List) + three-way lockstep correspondence (DESIGN.md §7.10)."""
import json
import os

from . import lib

LEVEL = "proof"
DIRS = ["C10_List"]


def run(ctx):
    thorough = ctx.tier == "thorough"
    hx = ctx.go_build("c10")
    ctx.proof_side(DIRS, "Properties/C10.v", extra_trusted=[
        "hand-written pointer-level model of ds/list_impl.go (Model.v: next/prev/list/value maps, sentinel per list, len), tied to the code by the correspondence check only",
        "the RWMutex of the thread-safe flavour is modelled for one sequential caller (Model.locks: read/write holds per list, a lock that cannot be taken blocks for ever; every wrapper method = lock, deferred unlock on all exit paths, body)",
        "scripted callbacks: at each visit nothing, an abort, or ONE call (cbact); callbacks that write the list they iterate are run on the lock-free flavour and container/list only - on the thread-safe flavour such a call blocks by design (C10_ts_reentrant_write_blocks: modelled, not exercised by the harness)",
        "correspondence cases beyond the first --full K carry two 30-bit fingerprints of the observation list instead of the list itself (Coq parses ~10^4 numerals/s)",
    ])
    if thorough:
        for k in range(5):
            ctx.seed += 1000
            ctx.corr(hx, ["hist", "--n", "1200", "--len", "40", "--full", "100"], cases_name="cases%d.v" % k)
        ctx.seed -= 5000
    else:
        ctx.corr(hx, ["hist", "--n", "400", "--len", "30", "--full", "30"])
    ctx.assumptions += [
        "sequential callers: one call at a time per world, plus the calls a callback makes from inside ForEach/ForEachReverse/Range/RangeReverse (the thread-safe flavour is exercised for equality with the lock-free one and for self-deadlock, not for races; concurrent a.PushBackList(b) || b.PushBackList(a) lock-order inversion is outside the statement)",
        "the refinement theorem is for zombie-free histories (no call passes a handle orphaned by Init on a non-empty list: container/list itself leaves its contract there); such histories are covered by the correspondence check only, where ds is compared with container/list and with the pointer model",
        "element values are ints (T = int); the sentinel's nil Value of container/list is identified with the zero value",
    ]


def replay(ctx, obj):
    """Re-runs the stored history on the three implementations and the model."""
    hx = ctx.go_build("c10")
    path = os.path.join(ctx.build, "replay_in.json")
    with open(path, "w") as f:
        json.dump(obj, f)
    ctx.corr(hx, ["hist", "--replay", path], cases_name="replay_cases.v")
    return ctx.finish(LEVEL)
