"""C10 ds.List = container/list: pointer-level model (coq/C10_List) + three-way lockstep correspondence (DESIGN.md §7.10)."""
import glob
import json
import os

from . import lib

LEVEL = "proof"
DIRS = ["C10_List"]


def run(ctx):
    thorough = ctx.tier == "thorough"
    hx = ctx.go_build("c10")
    ctx.proof_side(DIRS, "Properties/C10.v", extra_trusted=[
        "hand-written pointer-level model of ds/list_impl.go (Model.v: next/prev/list/value maps, sentinel per list, len), tied to the code by the correspondence check only",
        "the RWMutex of the thread-safe flavour is modelled for one sequential caller (Model.locks: read/write holds per list, a lock that cannot be taken blocks for ever; every wrapper method = lock, deferred unlock on all exit paths, body)",
        "ATOMICITY ASSUMPTION of C10_ts_equals_plain: under concurrent callers every wrapper method of the thread-safe flavour is ONE atomic step (mutators exclude everything, readers exclude mutators - "
        "the sync.RWMutex contract plus 'every mutator takes the WRITE lock'), so that concurrent use is some sequential history. Not proved: tied to the code by the free-running concurrent family "
        "(harness/cmd/c10/free.go: 2-4 goroutines on one list, schedule-independent oracles, plain and -race builds)",
        "scripted callbacks: at each visit nothing, an abort, or ONE call (cbact); callbacks that write the list they iterate are run on the lock-free flavour and container/list only - on the thread-safe flavour such a call blocks by design (C10_ts_reentrant_write_blocks: modelled, not exercised by the harness)",
        "correspondence cases beyond the first --full K carry two 30-bit fingerprints of the observation list instead of the list itself (Coq parses ~10^4 numerals/s)",
    ])
    if thorough:
        for k in range(5):
            ctx.seed += 1000
            ctx.corr(hx, ["hist", "--n", "1200", "--len", "40", "--full", "100"], cases_name="cases%d.v" % k)
        ctx.seed -= 5000
    else:
        ctx.corr(hx, ["hist", "--n", "400", "--len", "30", "--full", "30"])
    # panicking arguments (nil / foreign handles, nil / foreign lists, nil callbacks), recovered by the caller (no Coq cases; lock model: C10_ts_releases_bad_arg)
    ctx.corr(hx, ["misuse", "--n", "600" if thorough else "150"], cases_name="misuse.v")
    # free-running concurrent family of the thread-safe flavour (no Coq cases): plain build, then the same from a -race build (both tiers)
    free_args = ["free", "--ms", "400" if thorough else "200", "--rounds", "4" if thorough else "1"]
    ctx.corr(hx, free_args + ["--tag", "free"], cases_name="free.v")
    try:
        race_free(ctx, free_args)
        ctx.assumptions.append("the free-running family also ran from a -race build without a data race report (a report is a VIOLATION); note that next/prev/list/value are atomic.Pointer fields, "
                               "so the race detector can only see unsynchronised accesses to len and to caller data - ring corruption by interleaved pointer splices is judged by the family's own oracles")
    except RuntimeError as ex:
        ctx.log("race build unavailable: %s" % ex)
        ctx.assumptions.append("race-detector build not available on this machine: the free-running family ran without it")
    ctx.assumptions += [
        "the C10 theorems quantify over SEQUENTIAL histories: one call at a time per world, plus the calls a callback makes from inside ForEach/ForEachReverse/Range/RangeReverse. That they say anything about concurrent "
        "use of the thread-safe flavour rests on the ATOMICITY ASSUMPTION: every wrapper method is one atomic step under its RWMutex (all twelve mutators under the write lock, all readers under the read lock). "
        "This is assumed by C10_ts_equals_plain, not proved; it is tied to the code by the free-running concurrent family only: per round one ds.NewList[int]() used by 2-4 goroutines for a fixed time on >= 2 cores "
        "(15 rounds, each with half of its calls on one focus method; pushes/inserts/moves/removes on own, shared and other goroutines' handles, whole-list pushes, all eight readers), judged by schedule-independent laws "
        "(every snapshot and the quiescent state: forward walk = backward walk = ForEach = Values, Len, every element pushed and not removed exactly once, nothing foreign, each goroutine's lane elements in the order of its "
        "private container/list), each round in a child process under recover + watchdog + heap monitor, plain and -race builds. A bad interleaving that needs more than ~10^5-10^6 calls to show up, lock-order inversion "
        "between two lists (a.PushBackList(b) || b.PushBackList(a)) and Init() under concurrency are outside it",
        "the refinement theorem is for zombie-free histories (no call passes a handle orphaned by Init on a non-empty list: container/list itself leaves its contract there); such histories are covered by the correspondence check only, where ds is compared with container/list and with the pointer model",
        "element values are ints (T = int); the sentinel's nil Value of container/list is identified with the zero value",
    ]


def race_free(ctx, args):
    """Runs the free-running concurrent family from a -race build; a reported data race is a violation (replay = the run itself)."""
    hxr = ctx.go_build("c10", race=True)
    logp = os.path.join(ctx.build, "free_race_log")
    for f in glob.glob(logp + ".*"):
        os.remove(f)
    old = os.environ.get("GORACE")
    os.environ["GORACE"] = "exitcode=0 atexit_sleep_ms=100 log_path=" + logp
    try:
        ctx.corr(hxr, args + ["--tag", "free_race"], cases_name="free_race.v", timeout=600)
    finally:
        if old is None:
            del os.environ["GORACE"]
        else:
            os.environ["GORACE"] = old
    reports = ""
    for f in sorted(glob.glob(logp + ".*")):
        reports += open(f, errors="replace").read()
    n = reports.count("WARNING: DATA RACE")
    ctx.cov.setdefault("extra", {})["c10_free_race_reports"] = n
    if n:
        ctx.violation({"kind": "data-race-between-method-calls", "reports": n, "seed": ctx.seed,
                       "case": {"c10_free_race": True, "args": args},
                       "what": "the Go race detector saw unsynchronised accesses between concurrent method calls on one thread-safe ds.List: its wrapper "
                               "methods are not atomic steps (the assumption under which the sequential C10 theorems apply to concurrent use)",
                       "first_report": reports[:3500], "replay": "bin/check C10 --replay <this file>"}, tag="race")


def replay(ctx, obj):
    """Re-runs the stored history on the three implementations and the model (or, for the free-running family, the same round configurations)."""
    case = obj.get("case") if isinstance(obj, dict) else None
    if isinstance(case, dict) and case.get("c10_free_race"):
        race_free(ctx, list(case.get("args") or ["free", "--ms", "200", "--rounds", "1"]))
        return ctx.finish(LEVEL)
    if isinstance(case, dict) and case.get("c10_free"):
        # schedule-dependent: the same focus / goroutine count / call mix, five rounds
        hx = ctx.go_build("c10")
        ctx.seed = int(case.get("gen_seed", ctx.seed))
        ctx.corr(hx, ["free", "--focus", str(case.get("focus", "uniform")), "--ms", str(case.get("ms", 200)), "--rounds", "5"], cases_name="replay_free.v")
        return ctx.finish(LEVEL)
    hx = ctx.go_build("c10")
    path = os.path.join(ctx.build, "replay_in.json")
    with open(path, "w") as f:
        json.dump(obj, f)
    if (isinstance(case, dict) and case.get("c10_misuse")) or (isinstance(obj, dict) and obj.get("c10_misuse")):
        ctx.corr(hx, ["misuse", "--replay", path], cases_name="replay_misuse.v")
        return ctx.finish(LEVEL)
    ctx.corr(hx, ["hist", "--replay", path], cases_name="replay_cases.v")
    return ctx.finish(LEVEL)
