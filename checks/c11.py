"""C11 OrderedMap / Set: pointer-level hand model (coq/C11_Set) + lockstep correspondence + concurrent runs (DESIGN.md §7.11)."""
from . import lib

LEVEL = "proof"
DIRS = ["C11_Set"]


def run(ctx):
    thorough = ctx.tier == "thorough"
    hx = ctx.go_build("c11")
    ctx.proof_side(DIRS, "Properties/C11.v", extra_trusted=[
        "hand-written model of ds/orderedmap/orderedmap.go, ds/set_impl.go and the uint32/Empty instance of serializableorderedmap Encode/Decode (Model.v), tied to the code by the lockstep correspondence only",
        "hand-written model of serializableorderedmap Encode/Decode over arbitrary entry codecs incl. serializer.Serializer's sticky first error (CodecModel.v), tied to the code by the codec correspondence; serix itself (the entry codecs) is a parameter: observed per key / value through api.Encode / api.Decode in isolation",
        "lock skeletons of the set/OrderedMap/ShrinkingMap methods are hand-written data (Skeletons.v), validated against the code by the scripted and free-running watchdog runs only",
        "Go sync.RWMutex abstracted as: readers set + one announced writer; an announced writer blocks new readers (writer preference)",
    ])
    if thorough:
        for k in range(5):
            ctx.seed += 1000
            ctx.corr(hx, ["hist", "--n", "1200", "--len", "40"], cases_name="cases%d.v" % k)
        ctx.seed -= 5000
        ctx.corr(hx, ["conc", "--runs", "4", "--lin", "1500", "--atom", "300"], cases_name="conc.v")
        ctx.corr(hx, ["codec", "--n", "2500"], cases_name="codec.v")
    else:
        ctx.corr(hx, ["hist", "--n", "450", "--len", "30"])
        ctx.corr(hx, ["conc", "--runs", "1", "--lin", "300", "--atom", "60"], cases_name="conc.v")
        ctx.corr(hx, ["codec", "--n", "250"], cases_name="codec.v")
    ctx.assumptions += [
        "one shared set/map; set-typed arguments (other, mutations) are private to the calling goroutine and distinct from the receiver (s.Replace(s), s.DeleteAll(s) are outside the model)",
        "the Compute factory does not call writer methods of the same set; ForEach/ForEachReverse/Range/Filter consumers MAY call Set/Add, Delete and Clear of the receiver (scripted re-entrant consumers, also through a helper goroutine while the consumer waits)",
        "diff exactness of Apply/Compute is stated for mutations whose added and deleted sets are disjoint (overlap: known finding apply-overlap-reports-unchanged-element); for arbitrary mutations the returned mutations replay the state change",
        "codec instance: uint32 elements (4 bytes little endian), types.Empty values (0 bytes), uint32 count prefix; sets of fewer than 2^32 elements",
        "generic codec (failing entries): the entry codecs are arbitrary functions ek ev (None = api.Encode fails); round trip / truncation theorems assume decoders that invert the encoders and reject proper prefixes of a code (true of the serix types used: fixed width, length-prefixed, tagged); Decode leaves the entries decoded before a failure in the receiver (returned with an error, never as success)",
        "iteration under mutation is weakly consistent (ForEach re-locks per step and follows the pointers of a removed current element): proved and checked is that keys live during the whole iteration are visited exactly once in order; a removed element is still shown when it was the successor of an already removed current element (known finding foreach-visits-removed-element-after-current-removed); free-running writers concurrent with an iteration are covered only through writers that land between two steps",
        "deadlock freedom is proved for the lock skeletons under the RWMutex abstraction; Go scheduler fairness is not needed (some thread can always step)",
    ]


def replay(ctx, obj):
    print(obj)
    run(ctx)
    return ctx.finish(LEVEL)
