"""C19 safemath: tie T. The Gallina model is regenerated from core/safemath/safe_math.go on every run and the
property theorems are re-checked against the regenerated definitions (DESIGN.md §7.19)."""
import filecmp, glob, os, shutil
from . import lib

LEVEL = "proof"
DIR = "C19_SafeMath"


def search_failing_input(ctx, hx, thorough):
    """Differential search on the implementation itself (never a substitute for the theorems)."""
    found = []
    st = ctx.corr(hx, ["cases", "--n", "6000" if thorough else "3000"])
    sweeps = [("8", "1")] + ([("16", "127")] if thorough else [("16", "4099")])
    for bits, stride in sweeps:
        sp = os.path.join(ctx.build, "sweep%s.json" % bits)
        rc, out = ctx.sh([hx, "sweep", "--bits", bits, "--stride", stride, "--stats", sp], timeout=1500)
        if rc != 0:
            ctx.violation({"kind": "harness-failure", "log_tail": out[-2000:]}, tag="harness", no_input=True)
            continue
        import json
        s = json.load(open(sp))
        ctx.merge_stats(s)
        for f in s.get("oracle_failures") or []:
            found.append(f)
            ctx.violation({"kind": "implementation-violates-property", "case": f,
                           "how": "compiled core/safemath function vs exact integer arithmetic"}, tag="impl")
    if st and st.get("oracle_failures"):
        found += st["oracle_failures"]
    return found


def run(ctx):
    thorough = ctx.tier == "thorough"
    tool = ctx.build_tool("safemath2coq")
    hx = ctx.go_build("c19")
    gen = os.path.join(ctx.build, "Generated.v")
    rc, out = ctx.sh([tool, os.path.join(lib.REPO, "core/safemath/safe_math.go"), gen])
    translated = rc == 0
    ok, mout = ctx.coq_make(ctx.vo_targets([DIR], 'Properties/C19.v'))
    if not ok:
        ctx.violation({"kind": "proof-broken", "what": "make of /verif/coq failed", "log_tail": mout[-3000:]}, tag="proof", no_input=True)
        return
    committed = os.path.join(lib.COQ, DIR, "Generated.v")
    proof_ok = True
    overlay = None
    broken = None
    if not translated:
        proof_ok = False
        broken = {"theorem": "all C19_* (translation failed)", "translator_output": out[-2000:]}
    elif not filecmp.cmp(gen, committed, shallow=False):
        # the source changed: re-prove everything against the regenerated model in a scratch overlay
        ctx.log("safe_math.go translates to a different model than the committed snapshot: re-checking all proofs")
        overlay = os.path.join(ctx.build, "coq")
        shutil.rmtree(overlay, ignore_errors=True)
        os.makedirs(os.path.join(overlay, DIR))
        os.makedirs(os.path.join(overlay, "Properties"))
        for f in glob.glob(os.path.join(lib.COQ, DIR, "*.v")):
            shutil.copy(f, os.path.join(overlay, DIR))
        shutil.copy(gen, os.path.join(overlay, DIR, "Generated.v"))
        shutil.copy(os.path.join(lib.COQ, "Properties", "C19.v"), os.path.join(overlay, "Properties"))
        for f in ["GoInt", "Spec", "WrapLemmas", "Generated", "GeneratedPinned", "Corr", "Proofs", "Sweep8"]:
            rc, o = ctx.coqc(os.path.join(overlay, DIR, f + ".v"), timeout=900, extra_q=[(overlay, "Verif")], cwd=overlay)
            if rc != 0:
                proof_ok = False
                broken = {"theorem": "in %s/%s.v" % (DIR, f), "coqc_output": o[-3000:]}
                break
        if proof_ok:
            rc, o = ctx.coqc(os.path.join(overlay, "Properties", "C19.v"), timeout=600, extra_q=[(overlay, "Verif")], cwd=overlay)
            if rc != 0:
                proof_ok = False
                broken = {"theorem": "Properties/C19.v", "coqc_output": o[-3000:]}
    else:
        ctx.log("regenerated model identical to the committed snapshot; compiled proofs are current")
    # evidence for the proof side (counted on the committed sources; identical text when proof_ok without overlay)
    ctx.proof_side([DIR], "Properties/C19.v", extra_trusted=[
        "translator /verif/translator/safemath2coq (Go AST -> Gallina; aborts on unsupported syntax), validated by evaluating the generated definitions against the compiled Go functions on every run",
        "GoInt.v: two's-complement wrap, truncated division, shift semantics, math/bits Mul64/Div64 as stated by the Go spec",
    ])
    ctx.cov["model_regenerated_from_source"] = translated
    ctx.cov["regenerated_equals_snapshot"] = overlay is None and translated
    ctx.assumptions += ["operands are in range of their Go type (guaranteed by the type system)",
                        "32/64-bit behaviour of the compiled code is tied to the model by sampling; 8-bit exhaustively; the theorems cover all widths"]
    # correspondence (translator validation) + direct differential
    if overlay and proof_ok is False and not os.path.exists(os.path.join(overlay, DIR, "Corr.vo")):
        # model does not even compile: differential only
        found = search_failing_input_noCoq(ctx, hx, thorough)
    else:
        # make cases.v resolve Verif.C19_SafeMath against the overlay when there is one
        if overlay:
            orig = ctx.eval_cases
            ctx.eval_cases = lambda p, timeout=900, extra_q=None: orig(p, timeout, [(overlay, "Verif")])
        found = search_failing_input(ctx, hx, thorough)
    if not proof_ok:
        if not found:
            ctx.violation({"kind": "proof-broken", "broken": broken, "property": "C19",
                           "note": "the theorems no longer check against the model regenerated from safe_math.go; differential search found no failing input"},
                          tag="proof", no_input=True)
        # when found: the implementation violations were already registered with their inputs


def search_failing_input_noCoq(ctx, hx, thorough):
    orig = ctx.eval_cases
    ctx.eval_cases = lambda p, timeout=900, extra_q=None: ([], "")
    try:
        return search_failing_input(ctx, hx, thorough)
    finally:
        ctx.eval_cases = orig


def replay(ctx, obj):
    print(obj)
    hx = ctx.go_build("c19")
    st = ctx.corr(hx, ["cases", "--n", "3000"])
    return ctx.finish(LEVEL)
